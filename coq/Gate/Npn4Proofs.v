(* Gate/Npn4Proofs.v — proofs about the Gallina transcription of aig/npn4.rs (Gate/Npn4Model.v).
   Finite-domain facts (over the 24 generated permutations x 16 masks x 16 minterms) are closed
   vm_compute checks of boolean functions of the GENERATED tables; everything else is by induction. *)
From Coq Require Import NArith List Bool Lia.
Import ListNotations.
From VV Require Import Gate.GeneratedNpn Gate.Npn4Model.
Open Scope N_scope.

(* ---------- finite-domain helpers ---------- *)
Lemma in_seq16 : forall a, a < 16 <-> In a seq16.
Proof.
  intro a; split.
  - intro H. assert (a = 0 \/ a = 1 \/ a = 2 \/ a = 3 \/ a = 4 \/ a = 5 \/ a = 6 \/ a = 7 \/ a = 8 \/
      a = 9 \/ a = 10 \/ a = 11 \/ a = 12 \/ a = 13 \/ a = 14 \/ a = 15) by lia.
    unfold seq16. simpl. intuition.
  - unfold seq16; simpl. intuition; subst; reflexivity.
Qed.

Lemma in_seq4 : forall a, a < 4 <-> In a seq4.
Proof.
  intro a; split.
  - intro H. assert (a = 0 \/ a = 1 \/ a = 2 \/ a = 3) by lia. unfold seq4; simpl; intuition.
  - unfold seq4; simpl; intuition; subst; reflexivity.
Qed.

Lemma existsb_eq_seq16 : forall j, existsb (N.eqb j) seq16 = (j <? 16).
Proof.
  intro j. destruct (N.ltb_spec j 16) as [H|H].
  - apply existsb_exists. exists j. split; [apply in_seq16; exact H | apply N.eqb_refl].
  - destruct (existsb (N.eqb j) seq16) eqn:E; [|reflexivity].
    apply existsb_exists in E. destruct E as [x [Hx Hj]]. apply N.eqb_eq in Hj. subst x.
    apply in_seq16 in Hx. lia.
Qed.

(* ---------- bits of the or-fold ---------- *)
Lemma land1_b2n : forall x k, N.land (N.shiftr x k) 1 = N.b2n (N.testbit x k).
Proof.
  intros. replace (N.testbit x k) with (N.testbit (N.shiftr x k) 0)
    by (rewrite N.shiftr_spec', N.add_0_l; reflexivity).
  rewrite N.bit0_mod. symmetry. change (N.shiftr x k mod 2 ^ 1 = N.land (N.shiftr x k) (N.ones 1)). symmetry. apply N.land_ones.
Qed.

Lemma shiftl_b2n_bit : forall b m j, N.testbit (N.shiftl (N.b2n b) m) j = (m =? j) && b.
Proof.
  intros. destruct (N.ltb_spec j m).
  - rewrite N.shiftl_spec_low by assumption. destruct (N.eqb_spec m j); [lia|reflexivity].
  - rewrite N.shiftl_spec_high' by assumption. destruct (N.eqb_spec m j).
    + subst. rewrite N.sub_diag. simpl. apply N.b2n_bit0.
    + destruct b; simpl; [|reflexivity].
      destruct (j - m) eqn:E; [lia | reflexivity].
Qed.

Lemma orfold_bit : forall (g : N -> bool) ms init j,
  N.testbit (fold_left (fun out m => N.lor out (N.shiftl (N.b2n (g m)) m)) ms init) j
  = N.testbit init j || (existsb (N.eqb j) ms && g j).
Proof.
  intros g ms. induction ms as [|m ms IH]; intros init j; simpl.
  - rewrite orb_false_r. reflexivity.
  - rewrite IH. rewrite N.lor_spec, shiftl_b2n_bit. rewrite (N.eqb_sym m j).
    destruct (N.eqb_spec j m) as [E|E].
    + subst m. simpl. destruct (N.testbit init j), (g j), (existsb (N.eqb j) ms); reflexivity.
    + simpl. rewrite orb_false_r. reflexivity.
Qed.

Lemma orfold16_bit : forall (g : N -> bool) j,
  N.testbit (fold_left (fun out m => N.lor out (N.shiftl (N.b2n (g m)) m)) seq16 0) j
  = (j <? 16) && g j.
Proof. intros. rewrite orfold_bit, N.bits_0, existsb_eq_seq16. reflexivity. Qed.



Lemma fold_left_ext : forall {A B} (f g : A -> B -> A) l i,
  (forall a x, f a x = g a x) -> fold_left f l i = fold_left g l i.
Proof. intros A B f g l. induction l; intros; simpl; [reflexivity|]. rewrite H. apply IHl. exact H. Qed.

Lemma perm_tt_bit : forall tt perm j,
  N.testbit (perm_tt tt perm) j = (j <? 16) && N.testbit tt (pidx perm j).
Proof.
  intros. unfold perm_tt.
  rewrite <- (orfold16_bit (fun m => N.testbit tt (pidx perm m)) j).
  f_equal. apply fold_left_ext. intros. rewrite land1_b2n. reflexivity.
Qed.

Lemma flip_inputs_bit : forall tt mask j,
  N.testbit (flip_inputs tt mask) j = (j <? 16) && N.testbit tt (N.lxor j (N.land mask 15)).
Proof.
  intros. unfold flip_inputs.
  rewrite <- (orfold16_bit (fun m => N.testbit tt (N.lxor m (N.land mask 15))) j).
  f_equal. apply fold_left_ext. intros. rewrite land1_b2n. reflexivity.
Qed.

Lemma M16_bit : forall j, N.testbit M16 j = (j <? 16).
Proof.
  intro j. change M16 with (N.ones 16). destruct (N.ltb_spec j 16).
  - apply N.ones_spec_low; assumption.
  - apply N.ones_spec_high; assumption.
Qed.

Lemma not16_bit : forall t j, N.testbit (not16 t) j = xorb (N.testbit t j) (j <? 16).
Proof. intros. unfold not16. rewrite N.lxor_spec, M16_bit. reflexivity. Qed.

(* x < 2^k iff all bits >= k are clear *)
Lemma ltpow_bits : forall k x, x < 2^k <-> (forall j, k <= j -> N.testbit x j = false).
Proof.
  intros k x; split.
  - intros H j Hj. rewrite <- (N.mod_small x (2^k)) by exact H. apply N.mod_pow2_bits_high; exact Hj.
  - intro H. assert (E : x = x mod 2^k).
    { apply N.bits_inj. intro j. destruct (N.ltb_spec j k).
      - rewrite N.mod_pow2_bits_low by assumption. reflexivity.
      - rewrite N.mod_pow2_bits_high by assumption. apply H; assumption. }
    rewrite E. apply N.mod_upper_bound. apply N.pow_nonzero. discriminate.
Qed.
Lemma lt16_bits : forall x, x < 65536 <-> (forall j, 16 <= j -> N.testbit x j = false).
Proof. intro x. exact (ltpow_bits 16 x). Qed.

Lemma lxor_lt16 : forall a n, a < 16 -> N.lxor a (N.land n 15) < 16.
Proof.
  intros a n Ha. apply (ltpow_bits 4). intros j Hj.
  rewrite N.lxor_spec, N.land_spec. rewrite (proj1 (ltpow_bits 4 a) Ha) by assumption.
  change 15 with (N.ones 4). rewrite N.ones_spec_high by assumption. rewrite andb_false_r. reflexivity.
Qed.

Lemma tt_ext : forall a b, a < 65536 -> b < 65536 ->
  (forall j, j < 16 -> N.testbit a j = N.testbit b j) -> a = b.
Proof.
  intros a b Ha Hb H. apply N.bits_inj. intro j. destruct (N.ltb_spec j 16).
  - apply H; assumption.
  - rewrite (proj1 (lt16_bits a) Ha), (proj1 (lt16_bits b) Hb) by assumption. reflexivity.
Qed.

Lemma perm_tt_lt : forall tt perm, perm_tt tt perm < 65536.
Proof. intros. apply lt16_bits. intros j Hj. rewrite perm_tt_bit. destruct (N.ltb_spec j 16); [lia|reflexivity]. Qed.
Lemma flip_inputs_lt : forall tt m, flip_inputs tt m < 65536.
Proof. intros. apply lt16_bits. intros j Hj. rewrite flip_inputs_bit. destruct (N.ltb_spec j 16); [lia|reflexivity]. Qed.
Lemma not16_lt : forall t, t < 65536 -> not16 t < 65536.
Proof.
  intros t H. apply lt16_bits. intros j Hj. rewrite not16_bit.
  rewrite (proj1 (lt16_bits t) H) by assumption. destruct (N.ltb_spec j 16); [lia|reflexivity].
Qed.
Lemma apply_t_lt : forall t tt, apply_t t tt < 65536.
Proof.
  intros. unfold apply_t. destruct (t_out_neg t); [apply not16_lt|]; apply flip_inputs_lt.
Qed.

(* index-map semantics *)
Definition sigma (t : transform) (m : N) : N := pidx (t_perm t) (N.lxor m (N.land (t_in_neg t) 15)).

Lemma apply_t_bit : forall t tt j, j < 16 ->
  N.testbit (apply_t t tt) j = xorb (t_out_neg t) (N.testbit tt (sigma t j)).
Proof.
  intros t tt j Hj. unfold apply_t, sigma.
  assert (Hl : (j <? 16) = true) by (apply N.ltb_lt; exact Hj).
  assert (Hx : (N.lxor j (N.land (t_in_neg t) 15) <? 16) = true)
    by (apply N.ltb_lt; apply lxor_lt16; exact Hj).
  destruct (t_out_neg t); [rewrite not16_bit|]; rewrite flip_inputs_bit, perm_tt_bit, Hl, Hx; simpl.
  - rewrite xorb_true_r. reflexivity.
  - destruct (N.testbit _ _); reflexivity.
Qed.

Opaque perm_tt flip_inputs not16.

(* ---------- npn_canonical: fold invariants (for an arbitrary permutation list) ---------- *)

(* generic "keep the best candidate" fold: no concrete definition is unfolded here *)
Section FoldBest.
  Context {X T : Type}.
  Variable score : T -> N.
  Variable step : (N * T) -> X -> (N * T).
  Variable cands : X -> list T.
  Definition step_good (st : N * T) (x : X) : Prop :=
    fst (step st x) <= fst st /\
    (forall t, In t (cands x) -> fst (step st x) <= score t) /\
    (fst st = score (snd st) -> fst (step st x) = score (snd (step st x))) /\
    (snd (step st x) = snd st \/ In (snd (step st x)) (cands x)).
  Hypothesis step_ok : forall st x, step_good st x.

  Lemma fold_best_spec : forall xs st,
    fst (fold_left step xs st) <= fst st /\
    (forall t, In t (flat_map cands xs) -> fst (fold_left step xs st) <= score t) /\
    (fst st = score (snd st) -> fst (fold_left step xs st) = score (snd (fold_left step xs st))) /\
    (snd (fold_left step xs st) = snd st \/ In (snd (fold_left step xs st)) (flat_map cands xs)).
  Proof.
    induction xs as [|x xs IH]; intro st.
    - split; [apply N.le_refl|]. split; [intros t []|]. split; [intro H; exact H|left; reflexivity].
    - change (fold_left step (x :: xs) st) with (fold_left step xs (step st x)).
      change (flat_map cands (x :: xs)) with (cands x ++ flat_map cands xs).
      destruct (step_ok st x) as [S1 [S2 [S3 S4]]].
      destruct (IH (step st x)) as [I1 [I2 [I3 I4]]].
      split; [eapply N.le_trans; [exact I1|exact S1]|]. split; [|split].
      + intros t Ht. apply in_app_or in Ht. destruct Ht as [Ht|Ht].
        * eapply N.le_trans; [exact I1|]. apply S2. exact Ht.
        * apply I2. exact Ht.
      + intro H. apply I3. apply S3. exact H.
      + destruct I4 as [I4|I4].
        * rewrite I4. destruct S4 as [S4|S4]; [left; exact S4|right; apply in_or_app; left; exact S4].
        * right. apply in_or_app. right. exact I4.
  Qed.
End FoldBest.

Lemma step_neg_abs : forall (flipped nf : N) perm n (st : N * transform),
  let st1 := if flipped <? fst st then (flipped, mkT perm n false) else st in
  let st' := if nf <? fst st1 then (nf, mkT perm n true) else st1 in
  fst st' <= fst st /\ fst st' <= flipped /\ fst st' <= nf /\
  ((snd st' = snd st /\ fst st' = fst st) \/
   (snd st' = mkT perm n false /\ fst st' = flipped) \/
   (snd st' = mkT perm n true /\ fst st' = nf)).
Proof.
  intros flipped nf perm n [b t]. cbn [fst snd].
  destruct (N.ltb_spec flipped b) as [H1|H1]; cbn [fst snd].
  - destruct (N.ltb_spec nf flipped) as [H2|H2]; cbn [fst snd].
    + split; [lia|]. split; [lia|]. split; [lia|]. right; right; split; reflexivity.
    + split; [lia|]. split; [lia|]. split; [lia|]. right; left; split; reflexivity.
  - destruct (N.ltb_spec nf b) as [H2|H2]; cbn [fst snd].
    + split; [lia|]. split; [lia|]. split; [lia|]. right; right; split; reflexivity.
    + split; [lia|]. split; [lia|]. split; [lia|]. left; split; reflexivity.
Qed.

Lemma apply_t_false : forall p n tt, apply_t (mkT p n false) tt = flip_inputs (perm_tt tt p) n.
Proof. reflexivity. Qed.
Lemma apply_t_true : forall p n tt, apply_t (mkT p n true) tt = not16 (flip_inputs (perm_tt tt p) n).
Proof. reflexivity. Qed.

Lemma step_neg_unfold : forall permed perm st in_neg,
  step_neg permed perm st in_neg =
  (if not16 (flip_inputs permed in_neg) <?
      fst (if flip_inputs permed in_neg <? fst st then (flip_inputs permed in_neg, mkT perm in_neg false) else st)
   then (not16 (flip_inputs permed in_neg), mkT perm in_neg true)
   else (if flip_inputs permed in_neg <? fst st then (flip_inputs permed in_neg, mkT perm in_neg false) else st)).
Proof. reflexivity. Qed.

Definition neg_cands (perm : list N) (n : N) : list transform := [mkT perm n false; mkT perm n true].

Lemma step_neg_good : forall tt perm st n,
  step_good (fun t => apply_t t tt) (step_neg (perm_tt tt perm) perm) (neg_cands perm) st n.
Proof.
  intros tt perm st n. unfold step_good. rewrite step_neg_unfold.
  pose proof (step_neg_abs (flip_inputs (perm_tt tt perm) n) (not16 (flip_inputs (perm_tt tt perm) n)) perm n st) as A.
  cbv zeta in A. destruct A as [B1 [B2 [B3 B4]]].
  split; [exact B1|]. split; [|split].
  - intros t [Ht|[Ht|[]]]; subst t.
    + rewrite apply_t_false. exact B2.
    + rewrite apply_t_true. exact B3.
  - intro H. destruct B4 as [[Hs Hf]|[[Hs Hf]|[Hs Hf]]]; rewrite Hs, Hf.
    + exact H.
    + rewrite apply_t_false. reflexivity.
    + rewrite apply_t_true. reflexivity.
  - destruct B4 as [[Hs Hf]|[[Hs Hf]|[Hs Hf]]]; rewrite Hs.
    + left; reflexivity.
    + right; left; reflexivity.
    + right; right; left; reflexivity.
Qed.

Lemma step_perm_unfold : forall tt st perm,
  step_perm tt st perm = fold_left (step_neg (perm_tt tt perm) perm) seq16 st.
Proof. reflexivity. Qed.

Definition perm_cands (perm : list N) : list transform := flat_map (neg_cands perm) seq16.

Lemma step_perm_good : forall tt st perm,
  step_good (fun t => apply_t t tt) (step_perm tt) perm_cands st perm.
Proof.
  intros tt st perm. unfold step_good. rewrite step_perm_unfold.
  exact (fold_best_spec (fun t => apply_t t tt) (step_neg (perm_tt tt perm) perm) (neg_cands perm)
           (step_neg_good tt perm) seq16 st).
Qed.

Lemma transforms_of_eq : forall perms, transforms_of perms = flat_map perm_cands perms.
Proof. reflexivity. Qed.

Lemma canonical_with_spec : forall perms tt st,
  let st' := fold_left (step_perm tt) perms st in
  fst st' <= fst st /\
  (forall t, In t (transforms_of perms) -> fst st' <= apply_t t tt) /\
  (fst st = apply_t (snd st) tt -> fst st' = apply_t (snd st') tt) /\
  (snd st' = snd st \/ In (snd st') (transforms_of perms)).
Proof.
  intros perms tt st. cbv zeta. rewrite transforms_of_eq.
  exact (fold_best_spec (fun t => apply_t t tt) (step_perm tt) perm_cands
           (fun st x => step_perm_good tt st x) perms st).
Qed.

Lemma in_transforms_of : forall perms t,
  In t (transforms_of perms) <-> In (t_perm t) perms /\ In (t_in_neg t) seq16.
Proof.
  intros perms t. unfold transforms_of. rewrite in_flat_map. split.
  - intros [p [Hp H]]. apply in_flat_map in H. destruct H as [n [Hn H]].
    destruct H as [H|[H|[]]]; subst t; cbn [t_perm t_in_neg]; split; assumption.
  - intros [Hp Hn]. exists (t_perm t). split; [exact Hp|]. apply in_flat_map.
    exists (t_in_neg t). split; [exact Hn|]. destruct t as [p n o]; cbn [t_perm t_in_neg].
    destruct o; [right; left|left]; reflexivity.
Qed.

(* identity transform *)
Lemma identity_sigma : forallb (fun j => sigma IDENTITY j =? j) seq16 = true /\ t_out_neg IDENTITY = false.
Proof. vm_compute. split; reflexivity. Qed.

Lemma apply_identity : forall tt, tt < 65536 -> apply_t IDENTITY tt = tt.
Proof.
  intros tt H. apply tt_ext; [apply apply_t_lt|exact H|].
  intros j Hj. rewrite apply_t_bit by exact Hj.
  destruct identity_sigma as [Hs Ho]. rewrite Ho. simpl.
  rewrite forallb_forall in Hs. specialize (Hs j (proj1 (in_seq16 j) Hj)). apply N.eqb_eq in Hs.
  rewrite Hs. destruct (N.testbit tt j); reflexivity.
Qed.

Theorem canonical_reaches_with : forall perms tt, tt < 65536 ->
  apply_t (snd (npn_canonical_with perms tt)) tt = fst (npn_canonical_with perms tt).
Proof.
  intros perms tt H. unfold npn_canonical_with.
  destruct (canonical_with_spec perms tt (tt, IDENTITY)) as [_ [_ [I _]]].
  symmetry. apply I. simpl. symmetry. apply apply_identity. exact H.
Qed.

Theorem canonical_reaches : forall tt, tt < 65536 ->
  apply_t (snd (npn_canonical tt)) tt = fst (npn_canonical tt).
Proof. intros. apply canonical_reaches_with. assumption. Qed.

Theorem canonical_least : forall tt t, In t all_transforms -> fst (npn_canonical tt) <= apply_t t tt.
Proof.
  intros tt t Ht. unfold npn_canonical, npn_canonical_with.
  destruct (canonical_with_spec ALL_PERMS tt (tt, IDENTITY)) as [_ [I _]]. apply I. exact Ht.
Qed.

Lemma canonical_le_self : forall tt, fst (npn_canonical tt) <= tt.
Proof.
  intros tt. unfold npn_canonical, npn_canonical_with.
  destruct (canonical_with_spec ALL_PERMS tt (tt, IDENTITY)) as [I _]. exact I.
Qed.

Lemma identity_in_all : In IDENTITY all_transforms.
Proof. apply in_transforms_of. vm_compute. split; [left; reflexivity| left; reflexivity]. Qed.

Lemma canonical_transform_in_all : forall tt, In (snd (npn_canonical tt)) all_transforms.
Proof.
  intros tt. unfold npn_canonical, npn_canonical_with.
  destruct (canonical_with_spec ALL_PERMS tt (tt, IDENTITY)) as [_ [_ [_ [I|I]]]].
  - rewrite I. simpl. apply identity_in_all.
  - exact I.
Qed.

(* ---------- the 768 transforms form a group acting on truth tables ---------- *)
Definition compose_p (p1 p2 : list N) : list N := map (fun x => nth (N.to_nat x) p1 0) p2.
Definition unperm (p : list N) (x : N) : N :=
  fold_left (fun acc ip => N.lor acc (N.shiftl (N.b2n (N.testbit x (snd ip))) (fst ip))) (combine seq4 p) 0.
Definition compose (t1 t2 : transform) : transform :=
  mkT (compose_p (t_perm t1) (t_perm t2))
      (N.lxor (unperm (t_perm t2) (N.land (t_in_neg t1) 15)) (N.land (t_in_neg t2) 15))
      (xorb (t_out_neg t1) (t_out_neg t2)).
Definition inverse (t : transform) : transform :=
  mkT (perm_inv (t_perm t)) (pidx (t_perm t) (N.land (t_in_neg t) 15)) (t_out_neg t).

Fixpoint list_eqb (a b : list N) : bool :=
  match a, b with
  | [], [] => true
  | x :: a', y :: b' => (x =? y) && list_eqb a' b'
  | _, _ => false
  end.
Lemma list_eqb_eq : forall a b, list_eqb a b = true -> a = b.
Proof.
  induction a as [|x a IH]; destruct b as [|y b]; simpl; intro H; try discriminate; [reflexivity|].
  apply andb_true_iff in H. destruct H as [H1 H2]. apply N.eqb_eq in H1. subst. f_equal. apply IH. exact H2.
Qed.
Definition memb_perm (p : list N) : bool := existsb (list_eqb p) ALL_PERMS.
Lemma memb_perm_in : forall p, memb_perm p = true -> In p ALL_PERMS.
Proof.
  intros p H. apply existsb_exists in H. destruct H as [q [Hq E]]. apply list_eqb_eq in E. subst. exact Hq.
Qed.

Definition compose_check : bool :=
  forallb (fun p1 => forallb (fun p2 => forallb (fun n1 =>
    let p3 := compose_p p1 p2 in
    let u := unperm p2 n1 in
    memb_perm p3 && (u <? 16) &&
    forallb (fun m => (pidx p3 (N.lxor m u) =? pidx p1 (N.lxor (pidx p2 m) n1)) && (pidx p2 m <? 16)) seq16)
    seq16) ALL_PERMS) ALL_PERMS.
Lemma compose_check_ok : compose_check = true.
Proof. vm_compute. reflexivity. Qed.

Definition inverse_check : bool :=
  forallb (fun p => forallb (fun n =>
    let q := perm_inv p in
    let k := pidx p n in
    memb_perm q && (k <? 16) &&
    forallb (fun m => (pidx p (N.lxor (pidx q (N.lxor m k)) n) =? m) && (pidx q (N.lxor m k) <? 16)) seq16)
    seq16) ALL_PERMS.
Lemma inverse_check_ok : inverse_check = true.
Proof. vm_compute. reflexivity. Qed.

Lemma land15_lt : forall n, N.land n 15 < 16.
Proof. intro n. change 15 with (N.ones 4). rewrite N.land_ones. apply N.mod_upper_bound. discriminate. Qed.
Lemma land15_small : forall n, n < 16 -> N.land n 15 = n.
Proof. intros n H. change 15 with (N.ones 4). rewrite N.land_ones. apply N.mod_small. exact H. Qed.

Lemma compose_facts : forall p1 p2 n1 m, In p1 ALL_PERMS -> In p2 ALL_PERMS -> n1 < 16 -> m < 16 ->
  In (compose_p p1 p2) ALL_PERMS /\ unperm p2 n1 < 16 /\ pidx p2 m < 16 /\
  pidx (compose_p p1 p2) (N.lxor m (unperm p2 n1)) = pidx p1 (N.lxor (pidx p2 m) n1).
Proof.
  intros p1 p2 n1 m H1 H2 Hn Hm.
  pose proof compose_check_ok as C. unfold compose_check in C.
  rewrite forallb_forall in C. specialize (C p1 H1).
  rewrite forallb_forall in C. specialize (C p2 H2).
  rewrite forallb_forall in C. specialize (C n1 (proj1 (in_seq16 n1) Hn)).
  cbv zeta in C. apply andb_true_iff in C. destruct C as [C C3].
  apply andb_true_iff in C. destruct C as [C1 C2].
  rewrite forallb_forall in C3. specialize (C3 m (proj1 (in_seq16 m) Hm)).
  apply andb_true_iff in C3. destruct C3 as [C3 C4].
  split; [apply memb_perm_in; exact C1|]. split; [apply N.ltb_lt; exact C2|].
  split; [apply N.ltb_lt; exact C4|]. apply N.eqb_eq. exact C3.
Qed.

Lemma sigma_lt : forall t j, In t all_transforms -> j < 16 -> sigma t j < 16.
Proof.
  intros t j Ht Hj. apply in_transforms_of in Ht. destruct Ht as [Hp Hn]. unfold sigma.
  destruct (compose_facts (t_perm t) (t_perm t) 0 (N.lxor j (N.land (t_in_neg t) 15)) Hp Hp) as [_ [_ [H _]]];
    [reflexivity|apply lxor_lt16; exact Hj|exact H].
Qed.

Lemma compose_in : forall t1 t2, In t1 all_transforms -> In t2 all_transforms -> In (compose t1 t2) all_transforms.
Proof.
  intros t1 t2 H1 H2. apply in_transforms_of in H1. apply in_transforms_of in H2.
  destruct H1 as [P1 N1]. destruct H2 as [P2 N2]. apply in_transforms_of. unfold compose. cbn [t_perm t_in_neg].
  destruct (compose_facts (t_perm t1) (t_perm t2) (N.land (t_in_neg t1) 15) 0 P1 P2 (land15_lt _)) as [A [B _]]; [reflexivity|].
  split; [exact A|]. apply in_seq16. apply lxor_lt16. exact B.
Qed.

Lemma compose_sigma : forall t1 t2 j, In t1 all_transforms -> In t2 all_transforms -> j < 16 ->
  sigma (compose t1 t2) j = sigma t1 (sigma t2 j).
Proof.
  intros t1 t2 j H1 H2 Hj. apply in_transforms_of in H1. apply in_transforms_of in H2.
  destruct H1 as [P1 N1]. destruct H2 as [P2 N2]. unfold sigma, compose. cbn [t_perm t_in_neg].
  set (n1 := N.land (t_in_neg t1) 15). set (n2 := N.land (t_in_neg t2) 15).
  assert (L1 : n1 < 16) by apply land15_lt.
  assert (Hm : N.lxor j n2 < 16) by (apply lxor_lt16; exact Hj).
  destruct (compose_facts (t_perm t1) (t_perm t2) n1 (N.lxor j n2) P1 P2 L1 Hm) as [A [B [C D]]].
  rewrite <- D.
  assert (E : N.land (N.lxor (unperm (t_perm t2) n1) n2) 15 = N.lxor (unperm (t_perm t2) n1) n2).
  { apply land15_small. unfold n2. apply lxor_lt16. exact B. }
  rewrite E. f_equal. rewrite (N.lxor_comm (unperm (t_perm t2) n1) n2). rewrite N.lxor_assoc. reflexivity.
Qed.

Theorem apply_compose : forall t1 t2 tt, In t1 all_transforms -> In t2 all_transforms ->
  apply_t t2 (apply_t t1 tt) = apply_t (compose t1 t2) tt.
Proof.
  intros t1 t2 tt H1 H2. apply tt_ext; [apply apply_t_lt|apply apply_t_lt|].
  intros j Hj. rewrite (apply_t_bit t2) by exact Hj.
  rewrite (apply_t_bit t1) by (apply sigma_lt; assumption).
  rewrite (apply_t_bit (compose t1 t2)) by exact Hj.
  rewrite compose_sigma by assumption. unfold compose; cbn [t_out_neg].
  destruct (t_out_neg t1), (t_out_neg t2), (N.testbit tt (sigma t1 (sigma t2 j))); reflexivity.
Qed.

Lemma inverse_facts : forall p n m, In p ALL_PERMS -> n < 16 -> m < 16 ->
  In (perm_inv p) ALL_PERMS /\ pidx p n < 16 /\ pidx (perm_inv p) (N.lxor m (pidx p n)) < 16 /\
  pidx p (N.lxor (pidx (perm_inv p) (N.lxor m (pidx p n))) n) = m.
Proof.
  intros p n m Hp Hn Hm.
  pose proof inverse_check_ok as C. unfold inverse_check in C.
  rewrite forallb_forall in C. specialize (C p Hp).
  rewrite forallb_forall in C. specialize (C n (proj1 (in_seq16 n) Hn)).
  cbv zeta in C. apply andb_true_iff in C. destruct C as [C C3].
  apply andb_true_iff in C. destruct C as [C1 C2].
  rewrite forallb_forall in C3. specialize (C3 m (proj1 (in_seq16 m) Hm)).
  apply andb_true_iff in C3. destruct C3 as [C3 C4].
  split; [apply memb_perm_in; exact C1|]. split; [apply N.ltb_lt; exact C2|].
  split; [apply N.ltb_lt; exact C4|]. apply N.eqb_eq. exact C3.
Qed.

Lemma inverse_in : forall t, In t all_transforms -> In (inverse t) all_transforms.
Proof.
  intros t H. apply in_transforms_of in H. destruct H as [P Nn]. apply in_transforms_of.
  unfold inverse; cbn [t_perm t_in_neg].
  destruct (inverse_facts (t_perm t) (N.land (t_in_neg t) 15) 0 P (land15_lt _)) as [A [B _]]; [reflexivity|].
  split; [exact A|apply in_seq16; exact B].
Qed.

Theorem apply_inverse : forall t tt, In t all_transforms -> tt < 65536 ->
  apply_t (inverse t) (apply_t t tt) = tt.
Proof.
  intros t tt H Htt. pose proof (inverse_in t H) as Hi.
  apply tt_ext; [apply apply_t_lt|exact Htt|].
  intros j Hj. rewrite (apply_t_bit (inverse t)) by exact Hj.
  rewrite (apply_t_bit t) by (apply sigma_lt; assumption).
  apply in_transforms_of in H. destruct H as [P Nn].
  assert (E : sigma t (sigma (inverse t) j) = j).
  { unfold sigma, inverse; cbn [t_perm t_in_neg].
    destruct (inverse_facts (t_perm t) (N.land (t_in_neg t) 15) j P (land15_lt _) Hj) as [A [B [C D]]].
    rewrite (land15_small _ B). exact D. }
  rewrite E. unfold inverse; cbn [t_out_neg].
  destruct (t_out_neg t), (N.testbit tt j); reflexivity.
Qed.

(* ---------- class invariance ---------- *)
Theorem canonical_class_invariant : forall tt s, tt < 65536 -> In s all_transforms ->
  fst (npn_canonical (apply_t s tt)) = fst (npn_canonical tt).
Proof.
  intros tt s Htt Hs.
  pose proof (apply_t_lt s tt) as Htt'.
  apply N.le_antisymm.
  - (* c(tt') <= c(tt): c(tt) = apply u tt = apply u (apply (inverse s) tt') *)
    rewrite <- (canonical_reaches tt Htt).
    set (u := snd (npn_canonical tt)).
    assert (Hu : In u all_transforms) by apply canonical_transform_in_all.
    assert (E : apply_t u tt = apply_t (compose (inverse s) u) (apply_t s tt)).
    { rewrite <- apply_compose by (try apply inverse_in; assumption).
      rewrite apply_inverse by assumption. reflexivity. }
    rewrite E. apply canonical_least. apply compose_in; [apply inverse_in; assumption|exact Hu].
  - rewrite <- (canonical_reaches (apply_t s tt) Htt').
    rewrite apply_compose by (try apply canonical_transform_in_all; assumption).
    apply canonical_least. apply compose_in; [assumption|apply canonical_transform_in_all].
Qed.

Theorem canonical_idempotent : forall tt, tt < 65536 ->
  fst (npn_canonical (fst (npn_canonical tt))) = fst (npn_canonical tt).
Proof.
  intros tt H. rewrite <- (canonical_reaches tt H) at 1.
  apply canonical_class_invariant; [exact H|apply canonical_transform_in_all].
Qed.

Lemma canonical_lt : forall tt, tt < 65536 -> fst (npn_canonical tt) < 65536.
Proof. intros tt H. pose proof (canonical_le_self tt). lia. Qed.

(* ---------- patterns: bitwise evaluation = pointwise Boolean evaluation ---------- *)
Definition pe_valb (vals : list bool) (e : pedge) : bool := xorb (nth (N.to_nat (fst e)) vals false) (snd e).
Definition pat_valuesb (ands : list (pedge * pedge)) (vars : list bool) : list bool :=
  fold_left (fun vals ab => vals ++ [pe_valb vals (fst ab) && pe_valb vals (snd ab)]) ands vars.
Definition pat_evalb (p : pattern) (vars : list bool) : bool :=
  pe_valb (pat_valuesb (p_ands p) vars) (p_out p).
Definition bits4 (m : N) : list bool := [N.testbit m 0; N.testbit m 1; N.testbit m 2; N.testbit m 3].

Lemma xmask_bit : forall b j, j < 16 -> N.testbit (xmask b) j = b.
Proof.
  intros b j Hj. destruct b; unfold xmask.
  - rewrite M16_bit. apply N.ltb_lt. exact Hj.
  - apply N.bits_0.
Qed.

Lemma nth_map_bit : forall j k (values : list N),
  nth k (map (fun v => N.testbit v j) values) false = N.testbit (nth k values 0) j.
Proof.
  intros j k values. rewrite <- (N.bits_0 j) at 1.
  exact (map_nth (fun v => N.testbit v j) values 0 k).
Qed.

Lemma pe_val_bit : forall values e j, j < 16 ->
  N.testbit (pe_val values e) j = pe_valb (map (fun v => N.testbit v j) values) e.
Proof.
  intros values e j Hj. unfold pe_val, pe_valb. rewrite N.lxor_spec, xmask_bit by exact Hj.
  rewrite nth_map_bit. reflexivity.
Qed.

Lemma pat_values_bit : forall ands vars j, j < 16 ->
  map (fun v => N.testbit v j) (pat_values ands vars) = pat_valuesb ands (map (fun v => N.testbit v j) vars).
Proof.
  intros ands. unfold pat_values, pat_valuesb.
  induction ands as [|ab ands IH]; intros vars j Hj; cbn [fold_left]; [reflexivity|].
  rewrite IH by exact Hj. f_equal. rewrite map_app. cbn [map]. rewrite N.land_spec.
  rewrite !pe_val_bit by exact Hj. reflexivity.
Qed.

Lemma pat_eval_bit : forall p vars j, j < 16 ->
  N.testbit (pat_eval p vars) j = pat_evalb p (map (fun v => N.testbit v j) vars).
Proof.
  intros p vars j Hj. unfold pat_eval, pat_evalb. rewrite pe_val_bit by exact Hj.
  rewrite pat_values_bit by exact Hj. reflexivity.
Qed.

Lemma lxor_lt65536 : forall a b, a < 65536 -> b < 65536 -> N.lxor a b < 65536.
Proof.
  intros a b Ha Hb. apply lt16_bits. intros j Hj. rewrite N.lxor_spec.
  rewrite (proj1 (lt16_bits a) Ha), (proj1 (lt16_bits b) Hb) by exact Hj. reflexivity.
Qed.
Lemma land_lt65536 : forall a b, a < 65536 -> N.land a b < 65536.
Proof.
  intros a b Ha. apply lt16_bits. intros j Hj. rewrite N.land_spec.
  rewrite (proj1 (lt16_bits a) Ha) by exact Hj. reflexivity.
Qed.

Lemma nth_Forall_lt : forall (values : list N) k, Forall (fun v => v < 65536) values -> nth k values 0 < 65536.
Proof.
  intros values k H. destruct (nth_in_or_default k values 0) as [Hin|Hd].
  - rewrite Forall_forall in H. apply H. exact Hin.
  - rewrite Hd. reflexivity.
Qed.

Lemma pe_val_lt : forall values e, Forall (fun v => v < 65536) values -> pe_val values e < 65536.
Proof.
  intros values e H. unfold pe_val. apply lxor_lt65536; [apply nth_Forall_lt; exact H|].
  destruct (snd e); reflexivity.
Qed.

Lemma pat_values_lt : forall ands vars, Forall (fun v => v < 65536) vars ->
  Forall (fun v => v < 65536) (pat_values ands vars).
Proof.
  intros ands. unfold pat_values. induction ands as [|ab ands IH]; intros vars H; cbn [fold_left]; [exact H|].
  apply IH. apply Forall_app. split; [exact H|]. constructor; [|constructor].
  apply land_lt65536. apply pe_val_lt. exact H.
Qed.

Lemma pat_eval_lt : forall p vars, Forall (fun v => v < 65536) vars -> pat_eval p vars < 65536.
Proof. intros p vars H. unfold pat_eval. apply pe_val_lt. apply pat_values_lt. exact H. Qed.

Lemma var_tt_lt : Forall (fun v => v < 65536) VAR_TT.
Proof. repeat constructor. Qed.

Lemma pat_tt_lt : forall p, pat_tt p < 65536.
Proof. intro p. apply pat_eval_lt. exact var_tt_lt. Qed.

Lemma var_tt_bits : forall j, j < 16 -> map (fun v => N.testbit v j) VAR_TT = bits4 j.
Proof.
  intros j Hj. apply in_seq16 in Hj. unfold seq16 in Hj. cbn [In] in Hj.
  repeat (destruct Hj as [Hj|Hj]; [subst j; vm_compute; reflexivity|]). contradiction.
Qed.

Lemma pat_tt_bit : forall p j, j < 16 -> N.testbit (pat_tt p) j = pat_evalb p (bits4 j).
Proof. intros p j Hj. unfold pat_tt. rewrite pat_eval_bit by exact Hj. rewrite var_tt_bits by exact Hj. reflexivity. Qed.

(* ---------- transform_pattern ---------- *)
Definition tp_and (t : transform) (ab : pedge * pedge) : pedge * pedge := (map_edge t (fst ab), map_edge t (snd ab)).

Section TransformPattern.
  Variable t : transform.
  Variables env env' : list bool.
  Hypothesis H : forall ex e, pe_valb (env ++ ex) e = pe_valb (env' ++ ex) (map_edge t e).

  Lemma tp_values : forall ands ex, exists ex',
    pat_valuesb ands (env ++ ex) = env ++ ex' /\
    pat_valuesb (map (tp_and t) ands) (env' ++ ex) = env' ++ ex'.
  Proof.
    unfold pat_valuesb. induction ands as [|ab ands IH]; intro ex; cbn [fold_left map].
    - exists ex. split; reflexivity.
    - unfold tp_and at 2 3. cbn [fst snd]. rewrite <- !H. rewrite <- !app_assoc. apply IH.
  Qed.

  Lemma tp_evalb : forall p, pat_evalb (transform_pattern p t) env' = xorb (t_out_neg t) (pat_evalb p env).
  Proof.
    intro p. unfold pat_evalb, transform_pattern. cbn [p_ands p_out].
    destruct (tp_values (p_ands p) []) as [ex' [E1 E2]]. rewrite !app_nil_r in E1, E2.
    change (map (fun ab => (map_edge t (fst ab), map_edge t (snd ab))) (p_ands p)) with (map (tp_and t) (p_ands p)).
    rewrite E1, E2. rewrite (H ex' (p_out p)). unfold pe_valb. cbn [fst snd].
    destruct (nth _ _ _), (snd (map_edge t (p_out p))), (t_out_neg t); reflexivity.
  Qed.
End TransformPattern.

Definition tp_check : bool :=
  forallb (fun p => forallb (fun n => forallb (fun j => forallb (fun k =>
    let n' := nth (N.to_nat k) (perm_inv p) 0 in
    (n' <? 4) && Bool.eqb (N.testbit (pidx p (N.lxor j n)) k) (xorb (N.testbit j n') (N.testbit n n')))
    seq4) seq16) seq16) ALL_PERMS.
Lemma tp_check_ok : tp_check = true.
Proof. vm_compute. reflexivity. Qed.

Lemma nth_bits4_app : forall m ex k, k < 4 -> nth (N.to_nat k) (bits4 m ++ ex) false = N.testbit m k.
Proof.
  intros m ex k Hk. apply in_seq4 in Hk. unfold seq4 in Hk. cbn [In] in Hk.
  repeat (destruct Hk as [Hk|Hk]; [subst k; reflexivity|]). contradiction.
Qed.

Lemma nth_app_ge4 : forall (a b ex : list bool) k, length a = 4%nat -> length b = 4%nat -> 4 <= k ->
  nth (N.to_nat k) (a ++ ex) false = nth (N.to_nat k) (b ++ ex) false.
Proof.
  intros a b ex k La Lb Hk. rewrite !app_nth2 by lia. rewrite La, Lb. reflexivity.
Qed.

Lemma tp_env_ok : forall t j, In t all_transforms -> j < 16 ->
  forall ex e, pe_valb (bits4 (sigma t j) ++ ex) e = pe_valb (bits4 j ++ ex) (map_edge t e).
Proof.
  intros t j Ht Hj ex e. apply in_transforms_of in Ht. destruct Ht as [Hp Hn].
  unfold map_edge. destruct (N.ltb_spec (fst e) 4) as [Hk|Hk].
  - unfold var_subst. cbv zeta. unfold pe_valb. cbn [fst snd].
    pose proof tp_check_ok as C. unfold tp_check in C.
    rewrite forallb_forall in C. specialize (C _ Hp).
    rewrite forallb_forall in C. specialize (C _ Hn).
    rewrite forallb_forall in C. specialize (C j (proj1 (in_seq16 j) Hj)).
    rewrite forallb_forall in C. specialize (C (fst e) (proj1 (in_seq4 _) Hk)).
    cbv zeta in C. apply andb_true_iff in C. destruct C as [C1 C2].
    apply N.ltb_lt in C1. apply Bool.eqb_prop in C2.
    rewrite nth_bits4_app by exact Hk. rewrite nth_bits4_app by exact C1.
    unfold sigma. rewrite (land15_small _ (proj2 (in_seq16 _) Hn)). rewrite C2.
    destruct (N.testbit j _), (N.testbit (t_in_neg t) _), (snd e); reflexivity.
  - unfold pe_valb. rewrite (nth_app_ge4 (bits4 (sigma t j)) (bits4 j)) by (try reflexivity; exact Hk). reflexivity.
Qed.

Theorem transform_pattern_correct : forall p t, In t all_transforms ->
  pat_tt (transform_pattern p t) = apply_t t (pat_tt p).
Proof.
  intros p t Ht. apply tt_ext; [apply pat_tt_lt|apply apply_t_lt|].
  intros j Hj. rewrite pat_tt_bit by exact Hj. rewrite apply_t_bit by exact Hj.
  rewrite pat_tt_bit by (apply sigma_lt; assumption).
  apply (tp_evalb t (bits4 (sigma t j)) (bits4 j)). apply tp_env_ok; assumption.
Qed.

(* ---------- library ---------- *)
Lemma lib_put_Forall : forall (P : N * pattern -> Prop) k p l, P (k, p) -> Forall P l -> Forall P (lib_put k p l).
Proof.
  intros P k p l Hkp. induction l as [|[k' p'] l IH]; intro H; cbn [lib_put].
  - constructor; [exact Hkp|constructor].
  - inversion H; subst. destruct (k' =? k); constructor; try assumption. apply IH. assumption.
Qed.

Lemma lib_offer_Forall : forall (P : N * pattern -> Prop) k p l, P (k, p) -> Forall P l -> Forall P (lib_offer k p l).
Proof.
  intros P k p l Hkp H. unfold lib_offer. destruct (lib_get k l) as [e|].
  - destruct (pat_size e <=? pat_size p); [exact H|apply lib_put_Forall; assumption].
  - apply lib_put_Forall; assumption.
Qed.

Lemma lib_get_in : forall k l p, lib_get k l = Some p -> In (k, p) l.
Proof.
  intros k l p. induction l as [|[k' p'] l IH]; cbn [lib_get]; intro H; [discriminate|].
  destruct (N.eqb_spec k' k).
  - inversion H; subst. left; reflexivity.
  - right. apply IH. exact H.
Qed.

Definition raw_ok (kp : N * pattern) : Prop := pat_tt (snd kp) = fst kp.
Definition canon_ok (kp : N * pattern) : Prop :=
  pat_tt (snd kp) = fst kp /\ fst (npn_canonical (fst kp)) = fst kp /\ fst kp < 65536.

Lemma by_tt_of_ok : forall pats, Forall raw_ok (by_tt_of pats).
Proof.
  intro pats. unfold by_tt_of. assert (G : forall l, Forall raw_ok l -> Forall raw_ok (fold_left by_tt_step pats l)).
  { induction pats as [|p pats IH]; intros l Hl; cbn [fold_left]; [exact Hl|].
    apply IH. unfold by_tt_step. apply lib_offer_Forall; [reflexivity|exact Hl]. }
  apply G. constructor.
Qed.

Lemma canon_step_ok : forall best ttp, raw_ok ttp -> Forall canon_ok best -> Forall canon_ok (canon_step best ttp).
Proof.
  intros best [tt pat] Hr Hb. unfold raw_ok in Hr. cbn [fst snd] in Hr. unfold canon_step.
  pose proof (pat_tt_lt pat) as Hlt. rewrite Hr in Hlt.
  pose proof (canonical_reaches tt Hlt) as R. pose proof (canonical_transform_in_all tt) as Tin.
  pose proof (canonical_idempotent tt Hlt) as Idem. pose proof (canonical_lt tt Hlt) as Clt.
  destruct (npn_canonical tt) as [c t]. cbn [fst snd] in *.
  apply lib_offer_Forall; [|exact Hb].
  unfold canon_ok. cbn [fst snd]. split; [|split; assumption].
  rewrite transform_pattern_correct by exact Tin. rewrite Hr. exact R.
Qed.

Theorem canon_pass_ok : forall entries, Forall raw_ok entries -> Forall canon_ok (canon_pass entries).
Proof.
  intros entries. unfold canon_pass.
  assert (G : forall l, Forall raw_ok entries -> Forall canon_ok l -> Forall canon_ok (fold_left canon_step entries l)).
  { induction entries as [|e entries IH]; intros l He Hl; cbn [fold_left]; [exact Hl|].
    inversion He; subst. apply IH; [assumption|]. apply canon_step_ok; assumption. }
  intro H. apply G; [exact H|constructor].
Qed.

(* every entry of the library built from ANY list of patterns, the second pass iterating the
   first-pass map in ANY order, computes its key, and the key is an NPN-canonical truth table *)
Theorem library_sound : forall (pats : list pattern) (entries : lib),
  (forall kp, In kp entries -> In kp (by_tt_of pats)) ->
  forall k p, In (k, p) (canon_pass entries) -> pat_tt p = k /\ fst (npn_canonical k) = k.
Proof.
  intros pats entries Hsub k p Hin.
  assert (Hr : Forall raw_ok entries).
  { apply Forall_forall. intros kp Hkp. pose proof (by_tt_of_ok pats) as B.
    rewrite Forall_forall in B. apply B. apply Hsub. exact Hkp. }
  pose proof (canon_pass_ok entries Hr) as C. rewrite Forall_forall in C.
  destruct (C (k, p) Hin) as [A [B _]]. split; assumption.
Qed.

Corollary lookup_sound : forall (pats : list pattern) c p,
  lib_get c (canon_pass (by_tt_of pats)) = Some p -> pat_tt p = c /\ fst (npn_canonical c) = c.
Proof.
  intros pats c p H. apply (library_sound pats (by_tt_of pats)); [auto|]. apply lib_get_in. exact H.
Qed.

(* ---------- ALL_PERMS is the full symmetric group on 4 variables ---------- *)
Definition is_perm4 (p : list N) : bool :=
  Nat.eqb (length p) 4 && forallb (fun k => existsb (N.eqb k) p) seq4.
Fixpoint nodup_perms (l : list (list N)) : bool :=
  match l with
  | [] => true
  | x :: r => negb (existsb (list_eqb x) r) && nodup_perms r
  end.
Lemma all_perms_complete :
  length ALL_PERMS = 24%nat /\ forallb is_perm4 ALL_PERMS = true /\ nodup_perms ALL_PERMS = true /\
  length all_transforms = 768%nat.
Proof. vm_compute. repeat split. Qed.
