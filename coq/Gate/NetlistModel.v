(* Gate/NetlistModel.v — gate-level netlist (crates/synthesizer/src/ir.rs: GateModule, Cell, FfCell,
   RamBlock, NetDriver) with the well-formedness checker, the area sum and the longest-path
   computation of the C20 property.  Definitions only.

   * cell kinds, arities and the per-library area/delay tables come from Gate/GeneratedCells.v
     (translators/cells.py, regenerated on every run); every decimal literal is an exact integer
     scaled by SCALE = 10^6.
   * nets are N; `usize` overflow is not modelled.
   * a combinational node is a cell or an asynchronous RAM read port (addr -> data), exactly the two
     things analysis.rs::compute_timing_top_n propagates arrival times through.
   * the RAM access time `base + slope * log2(depth)` is irrational in general: every RAM carries its
     access delay as data (`m_access`, scaled), supplied by the harness from SramModel::access_delay
     and cross-checked in python against the translated factors. *)
From Coq Require Import NArith List Bool PArith FMapPositive.
Import ListNotations.
From VV Require Import Gate.GeneratedCells.
Open Scope N_scope.

Definition net := N.

Record cell := mkCell { c_kind : cell_kind; c_ins : list net; c_out : net }.
Record ffcell := mkFf { f_clock : net; f_d : net; f_q : net; f_reset : option net }.
Record wport := mkW { w_addr : list net; w_data : list net; w_enable : net; w_mask : option (list net) }.
Record rport := mkR { r_addr : list net; r_data : list net; r_sync : bool }.
Record ram := mkRam { m_depth : N; m_width : N; m_clock : net; m_writes : list wport; m_reads : list rport;
                      m_access : N }.
Inductive pdir := PIn | POut | PInout.
Record netlist := mkNl { n_nets : N; n_ports : list (pdir * list net); n_cells : list cell;
                         n_ffs : list ffcell; n_rams : list ram }.

Definition opt_list {A} (o : option (list A)) : list A := match o with Some l => l | None => [] end.
Definition opt_one {A} (o : option A) : list A := match o with Some x => [x] | None => [] end.

(* ---- who drives, who reads ---------------------------------------------------------------- *)
Definition wport_nets (w : wport) : list net := w_addr w ++ w_data w ++ [w_enable w] ++ opt_list (w_mask w).

(* every driver occurrence: constants, input/inout port bits, cell outputs, FF Q, RAM read data *)
Definition drives (nl : netlist) : list net :=
  [0; 1]
  ++ flat_map (fun p => match fst p with POut => [] | _ => snd p end) (n_ports nl)
  ++ map c_out (n_cells nl)
  ++ map f_q (n_ffs nl)
  ++ flat_map (fun m => flat_map r_data (m_reads m)) (n_rams nl).

(* every read occurrence: cell inputs, output/inout port bits, FF pins, RAM consumed nets *)
Definition reads (nl : netlist) : list net :=
  flat_map c_ins (n_cells nl)
  ++ flat_map (fun p => match fst p with PIn => [] | _ => snd p end) (n_ports nl)
  ++ flat_map (fun f => [f_clock f; f_d f] ++ opt_one (f_reset f)) (n_ffs nl)
  ++ flat_map (fun m => [m_clock m] ++ flat_map wport_nets (m_writes m) ++ flat_map r_addr (m_reads m)) (n_rams nl).

Definition all_refs (nl : netlist) : list net := drives nl ++ reads nl.

(* ---- combinational nodes -------------------------------------------------------------------- *)
Record cnode := mkNode { cn_ins : list net; cn_outs : list net }.

Definition cell_node (c : cell) : cnode := mkNode (c_ins c) [c_out c].
Definition async_reads (m : ram) : list rport := filter (fun r => negb (r_sync r)) (m_reads m).

(* weighted nodes: cells first, then the asynchronous read ports, RAM by RAM *)
Definition nodes_w (fc : cell -> N) (fm : ram -> N) (nl : netlist) : list (cnode * N) :=
  map (fun c => (cell_node c, fc c)) (n_cells nl)
  ++ flat_map (fun m => map (fun r => (mkNode (r_addr r) (r_data r), fm m)) (async_reads m)) (n_rams nl).
Definition nodes_of (nl : netlist) : list cnode := map fst (nodes_w (fun _ => 0) (fun _ => 0) nl).

(* arrival: library delay of the cell / access time of the RAM *)
Definition delay_nodes (l : library) (nl : netlist) : list (cnode * N) :=
  nodes_w (fun c => cell_delay l (c_kind c)) m_access nl.
(* depth counts every node but Buf *)
Definition level_nodes (nl : netlist) : list (cnode * N) :=
  nodes_w (fun c => match c_kind c with Buf => 0 | _ => 1 end) (fun _ => 1) nl.

(* ---- maps keyed by nets ------------------------------------------------------------------------ *)
Definition key (x : net) : positive := N.succ_pos x.
Definition nmap (A : Type) := PositiveMap.t A.
Definition nfind {A} (m : nmap A) (x : net) : option A := PositiveMap.find (key x) m.
Definition nadd {A} (x : net) (v : A) (m : nmap A) : nmap A := PositiveMap.add (key x) v m.
Definition nempty {A} : nmap A := PositiveMap.empty A.

Definition driven_set (nodes : list cnode) : nmap unit :=
  fold_left (fun m nd => fold_left (fun m o => nadd o tt m) (cn_outs nd) m) nodes nempty.

(* ---- levelised longest-path computation --------------------------------------------------- *)
(* value of a net: stored when its node settled; nets no node drives are start points (0) *)
Definition val_of (m : nmap N) (x : net) : N := match nfind m x with Some v => v | None => 0 end.

Definition in_ready (drv : nmap unit) (m : nmap N) (x : net) : bool :=
  match nfind m x with
  | Some _ => true
  | None => match nfind drv x with Some _ => false | None => true end
  end.
Definition node_ready (drv : nmap unit) (m : nmap N) (nd : cnode) : bool := forallb (in_ready drv m) (cn_ins nd).

Definition max_in (m : nmap N) (ins : list net) : N := fold_left (fun acc x => N.max acc (val_of m x)) ins 0.
Definition node_value (m : nmap N) (nw : cnode * N) : N := max_in m (cn_ins (fst nw)) + snd nw.
Definition settle (m : nmap N) (nw : cnode * N) : nmap N :=
  let v := node_value m nw in
  fold_left (fun m' o => nadd o v m') (cn_outs (fst nw)) m.

(* one pass over the pending nodes: settle every node whose inputs are all settled or start points *)
Fixpoint scan (drv : nmap unit) (m : nmap N) (pending rest : list (cnode * N)) (prog : bool)
  : nmap N * list (cnode * N) * bool :=
  match pending with
  | [] => (m, rev rest, prog)
  | nw :: r => if node_ready drv m (fst nw) then scan drv (settle m nw) r rest true
               else scan drv m r (nw :: rest) prog
  end.

Fixpoint levelize (fuel : nat) (drv : nmap unit) (m : nmap N) (pending : list (cnode * N))
  : nmap N * list (cnode * N) :=
  match fuel with
  | O => (m, pending)
  | S f =>
    match pending with
    | [] => (m, [])
    | _ => let '(m', rest, prog) := scan drv m pending [] false in
           if prog then levelize f drv m' rest else (m', rest)
    end
  end.

(* longest weighted path to every net; None when the nodes cannot be levelised (combinational cycle) *)
Definition longest (nws : list (cnode * N)) : option (nmap N) :=
  let '(m, rest) := levelize (S (length nws)) (driven_set (map fst nws)) nempty nws in
  match rest with [] => Some m | _ => None end.

(* ---- the checker ---------------------------------------------------------------------------------- *)
Fixpoint mem_n (x : N) (l : list N) : bool :=
  match l with [] => false | y :: r => (y =? x) || mem_n x r end.
Fixpoint nodup_n (l : list N) : bool :=
  match l with [] => true | x :: r => negb (mem_n x r) && nodup_n r end.

Definition acyclic_check (nl : netlist) : bool :=
  match longest (level_nodes nl) with Some _ => true | None => false end.

Definition wf_check (nl : netlist) : bool :=
  forallb (fun x => x <? n_nets nl) (all_refs nl)
  && forallb (fun c => Nat.eqb (length (c_ins c)) (arity (c_kind c))) (n_cells nl)
  && nodup_n (drives nl)
  && forallb (fun x => mem_n x (drives nl)) (reads nl)
  && acyclic_check nl.

(* which conjunct fails first (diagnostics for the check runner): 0 = none *)
Definition wf_diag (nl : netlist) : N :=
  if negb (forallb (fun x => x <? n_nets nl) (all_refs nl)) then 1
  else if negb (forallb (fun c => Nat.eqb (length (c_ins c)) (arity (c_kind c))) (n_cells nl)) then 2
  else if negb (nodup_n (drives nl)) then 3
  else if negb (forallb (fun x => mem_n x (drives nl)) (reads nl)) then 4
  else if negb (acyclic_check nl) then 5 else 0.

(* ---- area (scaled by SCALE * SCALE = 10^12) ----------------------------------------------------- *)
Definition sumN (l : list N) : N := fold_right N.add 0 l.
Definition comb_area (l : library) (nl : netlist) : N := sumN (map (fun c => cell_area l (c_kind c)) (n_cells nl)).
Definition seq_area (l : library) (nl : netlist) : N := N.of_nat (length (n_ffs nl)) * ff_area l.
Definition ram_bits (nl : netlist) : N := sumN (map (fun m => m_depth m * m_width m) (n_rams nl)).
(* bit_area = ff_area * SRAM_BIT_AREA_FACTOR *)
Definition mem_area (l : library) (nl : netlist) : N := ram_bits nl * (ff_area l * SRAM_BIT_AREA_FACTOR).
Definition total_area (l : library) (nl : netlist) : N :=
  comb_area l nl * SCALE + seq_area l nl * SCALE + mem_area l nl.

(* ---- timing report ---------------------------------------------------------------------------------- *)
(* endpoints of compute_timing_top_n: FF D pins, output/inout port bits, RAM write-port inputs *)
Definition endpoints (nl : netlist) : list net :=
  map f_d (n_ffs nl)
  ++ flat_map (fun p => match fst p with PIn => [] | _ => snd p end) (n_ports nl)
  ++ flat_map (fun m => flat_map wport_nets (m_writes m)) (n_rams nl).

Definition maxN (l : list N) : N := fold_left N.max l 0.

(* critical_path_delay (scaled by SCALE) and the arrival / depth of one net *)
Definition arrivals (l : library) (nl : netlist) : option (nmap N) := longest (delay_nodes l nl).
Definition depths (nl : netlist) : option (nmap N) := longest (level_nodes nl).
Definition critical_delay (l : library) (nl : netlist) : option N :=
  match arrivals l nl with Some m => Some (maxN (map (val_of m) (endpoints nl))) | None => None end.
Definition max_depth (nl : netlist) : option N :=
  match depths nl with Some m => Some (maxN (map (val_of m) (endpoints nl))) | None => None end.
