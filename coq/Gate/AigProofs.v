(* Gate/AigProofs.v — proofs about Gate/AigModel.v (model of aig/graph.rs + aig/rewrite.rs):
   mk_and / add_input specifications, validity of every enumerated cut, correctness of the cut
   truth table, of pattern instantiation under the NPN transform, and the main theorem
   rewrite_preserves: every sink of rewrite(aig) computes the same Boolean function as in aig. *)
From Coq Require Import NArith List Bool Arith PeanoNat Lia.
Import ListNotations.
From VV Require Import Gate.GeneratedNpn Gate.Npn4Model Gate.Npn4Proofs Gate.AigModel.
Local Open Scope nat_scope.

(* ---------- edges ---------- *)
Lemma edge_eqb_eq : forall a b : edge, edge_eqb a b = true <-> a = b.
Proof.
  intros [an ab] [bn bb]. unfold edge_eqb. cbn [fst snd]. rewrite andb_true_iff, Nat.eqb_eq, Bool.eqb_true_iff.
  split; [intros [-> ->]; reflexivity|intro H; inversion H; split; reflexivity].
Qed.
Lemma edge_eqb_spec : forall a b : edge, reflect (a = b) (edge_eqb a b).
Proof. intros a b. apply iff_reflect. symmetry. apply edge_eqb_eq. Qed.

(* ---------- evaluation ---------- *)
Definition eval_from (env : N -> bool) (nodes : list node) (vals : list bool) : list bool :=
  fold_left (fun vals nd => vals ++ [node_val env vals nd]) nodes vals.

Lemma eval_nodes_from : forall env nodes, eval_nodes env nodes = eval_from env nodes [].
Proof. reflexivity. Qed.

Lemma eval_from_app : forall env l1 l2 vals,
  eval_from env (l1 ++ l2) vals = eval_from env l2 (eval_from env l1 vals).
Proof. intros. unfold eval_from. apply fold_left_app. Qed.

Lemma eval_from_prefix : forall env l vals, exists r, eval_from env l vals = vals ++ r /\ length r = length l.
Proof.
  intros env l. induction l as [|x l IH]; intro vals.
  - exists []. split; [symmetry; apply app_nil_r|reflexivity].
  - unfold eval_from. cbn [fold_left]. destruct (IH (vals ++ [node_val env vals x])) as [r [E L]].
    exists (node_val env vals x :: r). split.
    + unfold eval_from in E. rewrite E. rewrite <- app_assoc. reflexivity.
    + cbn [length]. rewrite L. reflexivity.
Qed.

Lemma eval_nodes_length : forall env l, length (eval_nodes env l) = length l.
Proof.
  intros env l. rewrite eval_nodes_from. destruct (eval_from_prefix env l []) as [r [E L]].
  rewrite E. exact L.
Qed.

Lemma eval_nodes_app : forall env l ext, exists r,
  eval_nodes env (l ++ ext) = eval_nodes env l ++ r /\ length r = length ext.
Proof.
  intros env l ext. rewrite !eval_nodes_from. rewrite eval_from_app. apply eval_from_prefix.
Qed.

Lemma eval_nodes_snoc : forall env l x,
  eval_nodes env (l ++ [x]) = eval_nodes env l ++ [node_val env (eval_nodes env l) x].
Proof. intros. rewrite !eval_nodes_from. rewrite eval_from_app. reflexivity. Qed.

Definition in_range (nodes : list node) (e : edge) : Prop := fst e < length nodes.

Lemma edge_val_app : forall vals r e, fst e < length vals -> edge_val (vals ++ r) e = edge_val vals e.
Proof. intros vals r e H. unfold edge_val. rewrite app_nth1 by exact H. reflexivity. Qed.

Lemma edge_val_ext : forall env l ext e, in_range l e ->
  edge_val (eval_nodes env (l ++ ext)) e = edge_val (eval_nodes env l) e.
Proof.
  intros env l ext e H. destruct (eval_nodes_app env l ext) as [r [E _]]. rewrite E.
  apply edge_val_app. rewrite eval_nodes_length. exact H.
Qed.

Lemma nth_val_ext : forall env l ext i, i < length l ->
  nth i (eval_nodes env (l ++ ext)) false = nth i (eval_nodes env l) false.
Proof.
  intros env l ext i H. destruct (eval_nodes_app env l ext) as [r [E _]]. rewrite E.
  apply app_nth1. rewrite eval_nodes_length. exact H.
Qed.

(* value of node i = node_val over the values of the nodes before it *)
Lemma nth_error_split : forall {A} (l : list A) i x, nth_error l i = Some x ->
  exists l1 l2, l = l1 ++ x :: l2 /\ length l1 = i.
Proof. intros A l i x H. apply nth_error_split. exact H. Qed.

Lemma node_value : forall env nodes i nd, nth_error nodes i = Some nd ->
  exists pre, length pre = i /\ (exists post, nodes = pre ++ nd :: post) /\
  nth i (eval_nodes env nodes) false = node_val env (eval_nodes env pre) nd.
Proof.
  intros env nodes i nd H. destruct (nth_error_split nodes i nd H) as [l1 [l2 [E L]]].
  exists l1. split; [exact L|]. split; [exists l2; exact E|].
  subst nodes. replace (l1 ++ nd :: l2) with ((l1 ++ [nd]) ++ l2) by (rewrite <- app_assoc; reflexivity).
  rewrite nth_val_ext by (rewrite app_length; cbn [length]; lia).
  rewrite eval_nodes_snoc. rewrite app_nth2 by (rewrite eval_nodes_length; lia).
  rewrite eval_nodes_length. rewrite L. rewrite Nat.sub_diag. reflexivity.
Qed.

Definition wf_nodes (nodes : list node) : Prop :=
  forall i f0 f1, nth_error nodes i = Some (NAnd f0 f1) -> fst f0 < i /\ fst f1 < i.

Lemma wf_nodes_from_spec : forall nodes k, wf_nodes_from k nodes = true ->
  forall i f0 f1, nth_error nodes i = Some (NAnd f0 f1) -> fst f0 < k + i /\ fst f1 < k + i.
Proof.
  induction nodes as [|nd nodes IH]; intros k H i f0 f1 Hn.
  - destruct i; discriminate.
  - destruct i as [|i].
    + cbn [nth_error] in Hn. inversion Hn; subst nd. cbn [wf_nodes_from] in H.
      apply andb_true_iff in H. destruct H as [H _]. apply andb_true_iff in H. destruct H as [H1 H2].
      apply Nat.ltb_lt in H1. apply Nat.ltb_lt in H2. lia.
    + cbn [nth_error] in Hn. assert (H' : wf_nodes_from (S k) nodes = true).
      { destruct nd; cbn [wf_nodes_from] in H; try exact H.
        apply andb_true_iff in H. destruct H as [_ H]. exact H. }
      destruct (IH (S k) H' i f0 f1 Hn). lia.
Qed.

Lemma wf_nodes_of_bool : forall nodes, wf_nodes_from 0 nodes = true -> wf_nodes nodes.
Proof. intros nodes H i f0 f1 Hn. exact (wf_nodes_from_spec nodes 0 H i f0 f1 Hn). Qed.

Lemma and_value : forall env nodes i f0 f1, wf_nodes nodes -> nth_error nodes i = Some (NAnd f0 f1) ->
  nth i (eval_nodes env nodes) false =
  edge_val (eval_nodes env nodes) f0 && edge_val (eval_nodes env nodes) f1.
Proof.
  intros env nodes i f0 f1 W H. destruct (W i f0 f1 H) as [H0 H1].
  destruct (node_value env nodes i _ H) as [pre [L [[post E] V]]]. rewrite V. cbn [node_val].
  subst nodes. rewrite !edge_val_ext by (unfold in_range; lia). reflexivity.
Qed.

Lemma input_value : forall env nodes i o, nth_error nodes i = Some (NInput o) ->
  nth i (eval_nodes env nodes) false = env o.
Proof. intros env nodes i o H. destruct (node_value env nodes i _ H) as [pre [_ [_ V]]]. exact V. Qed.

Lemma const_value : forall env nodes i, nth_error nodes i = Some NConst ->
  nth i (eval_nodes env nodes) false = false.
Proof. intros env nodes i H. destruct (node_value env nodes i _ H) as [pre [_ [_ V]]]. exact V. Qed.

(* ---------- the AIG under construction ---------- *)
Definition good (nn : list node) : Prop := wf_nodes nn /\ nth_error nn 0 = Some NConst.

Lemma good_nonempty : forall nn, good nn -> 0 < length nn.
Proof. intros nn [_ H]. destruct nn; [discriminate|cbn; lia]. Qed.

Lemma good_new : good new_nodes.
Proof. split; [|reflexivity]. intros i f0 f1 H. destruct i as [|[|i]]; discriminate. Qed.

Lemma const0_val : forall env nn, good nn -> edge_val (eval_nodes env nn) CONST0 = false.
Proof. intros env nn [_ H]. unfold edge_val, CONST0. cbn [fst snd]. rewrite (const_value env nn 0 H). reflexivity. Qed.
Lemma const1_val : forall env nn, good nn -> edge_val (eval_nodes env nn) CONST1 = true.
Proof. intros env nn [_ H]. unfold edge_val, CONST1. cbn [fst snd]. rewrite (const_value env nn 0 H). reflexivity. Qed.

Lemma negate_if_val : forall vals e c, edge_val vals (negate_if e c) = xorb (edge_val vals e) c.
Proof. intros vals e c. unfold edge_val, negate_if. cbn [fst snd]. rewrite xorb_assoc. reflexivity. Qed.

Lemma negate_if_range : forall nn e c, in_range nn e -> in_range nn (negate_if e c).
Proof. intros nn e c H. exact H. Qed.

Lemma good_snoc_and : forall nn a b, good nn -> in_range nn a -> in_range nn b -> good (nn ++ [NAnd a b]).
Proof.
  intros nn a b [W C] Ha Hb. split.
  - intros i f0 f1 H. destruct (Nat.lt_ge_cases i (length nn)) as [Hi|Hi].
    + rewrite nth_error_app1 in H by exact Hi. exact (W i f0 f1 H).
    + rewrite nth_error_app2 in H by exact Hi. destruct (i - length nn) as [|k] eqn:E.
      * cbn [nth_error] in H. inversion H; subst. unfold in_range in *. lia.
      * cbn [nth_error] in H. destruct k; discriminate.
  - rewrite nth_error_app1 by (apply good_nonempty; split; assumption). exact C.
Qed.

Lemma good_snoc_input : forall nn o, good nn -> good (nn ++ [NInput o]).
Proof.
  intros nn o [W C]. split.
  - intros i f0 f1 H. destruct (Nat.lt_ge_cases i (length nn)) as [Hi|Hi].
    + rewrite nth_error_app1 in H by exact Hi. exact (W i f0 f1 H).
    + rewrite nth_error_app2 in H by exact Hi. destruct (i - length nn) as [|k] eqn:E.
      * cbn [nth_error] in H. discriminate.
      * cbn [nth_error] in H. destruct k; discriminate.
  - rewrite nth_error_app1 by (apply good_nonempty; split; assumption). exact C.
Qed.

Lemma find_index_spec : forall {A} (f : A -> bool) l k idx, find_index f l k = Some idx ->
  exists j x, idx = k + j /\ nth_error l j = Some x /\ f x = true.
Proof.
  intros A f l. induction l as [|y l IH]; intros k idx H; cbn [find_index] in H; [discriminate|].
  destruct (f y) eqn:F.
  - inversion H; subst. exists 0, y. split; [lia|]. split; [reflexivity|exact F].
  - destruct (IH (S k) idx H) as [j [x [E [N Fx]]]]. exists (S j), x. split; [lia|]. split; [exact N|exact Fx].
Qed.

Lemma nth_error_lt : forall {A} (l : list A) i x, nth_error l i = Some x -> i < length l.
Proof. intros A l i x H. apply nth_error_Some. rewrite H. discriminate. Qed.

(* the common shape of what add_input / mk_and / instantiate_pattern return *)
Definition extends (nn nn' : list node) : Prop := exists ext, nn' = nn ++ ext.
Lemma extends_refl : forall nn, extends nn nn.
Proof. intro nn. exists []. symmetry. apply app_nil_r. Qed.
Lemma extends_trans : forall a b c, extends a b -> extends b c -> extends a c.
Proof. intros a b c [e1 E1] [e2 E2]. exists (e1 ++ e2). subst. rewrite app_assoc. reflexivity. Qed.
Lemma extends_range : forall nn nn' e, extends nn nn' -> in_range nn e -> in_range nn' e.
Proof. intros nn nn' e [ext E] H. subst. unfold in_range in *. rewrite app_length. lia. Qed.
Lemma extends_val : forall env nn nn' e, extends nn nn' -> in_range nn e ->
  edge_val (eval_nodes env nn') e = edge_val (eval_nodes env nn) e.
Proof. intros env nn nn' e [ext E] H. subst. apply edge_val_ext. exact H. Qed.

Lemma add_input_spec : forall nn o, good nn ->
  let r := add_input nn o in
  extends nn (fst r) /\ good (fst r) /\ in_range (fst r) (snd r) /\
  forall env, edge_val (eval_nodes env (fst r)) (snd r) = env o.
Proof.
  intros nn o G. unfold add_input. destruct (find_index (node_is_input o) nn 0) as [idx|] eqn:F; cbn [fst snd].
  - destruct (find_index_spec _ _ _ _ F) as [j [x [E [N Fx]]]]. cbn in E. subst idx.
    destruct x; cbn [node_is_input] in Fx; try discriminate. apply N.eqb_eq in Fx. subst origin.
    split; [apply extends_refl|]. split; [exact G|]. split; [exact (nth_error_lt _ _ _ N)|].
    intro env. unfold edge_val. cbn [fst snd]. rewrite (input_value env nn j o N). apply xorb_false_r.
  - split; [exists [NInput o]; reflexivity|]. split; [apply good_snoc_input; exact G|].
    split; [unfold in_range; cbn [fst]; rewrite app_length; cbn [length]; lia|].
    intro env. unfold edge_val. cbn [fst snd]. rewrite xorb_false_r.
    apply input_value. rewrite nth_error_app2 by lia. rewrite Nat.sub_diag. reflexivity.
Qed.

Lemma mk_and_spec : forall nn a b, good nn -> in_range nn a -> in_range nn b ->
  let r := mk_and nn a b in
  extends nn (fst r) /\ good (fst r) /\ in_range (fst r) (snd r) /\
  forall env, edge_val (eval_nodes env (fst r)) (snd r) =
              edge_val (eval_nodes env nn) a && edge_val (eval_nodes env nn) b.
Proof.
  intros nn a b G Ha Hb. unfold mk_and.
  assert (Hc0 : in_range nn CONST0) by (apply good_nonempty; exact G).
  destruct (edge_eqb_spec a CONST0) as [E|_]; [|destruct (edge_eqb_spec b CONST0) as [E|_]]; cbn [orb fst snd].
  - split; [apply extends_refl|]. split; [exact G|]. split; [exact Hc0|].
    intro env. subst a. rewrite const0_val by exact G. reflexivity.
  - split; [apply extends_refl|]. split; [exact G|]. split; [exact Hc0|].
    intro env. subst b. rewrite const0_val by exact G. rewrite andb_false_r. reflexivity.
  - destruct (edge_eqb_spec a CONST1) as [E|_]; cbn [fst snd].
    { split; [apply extends_refl|]. split; [exact G|]. split; [exact Hb|].
      intro env. subst a. rewrite const1_val by exact G. reflexivity. }
    destruct (edge_eqb_spec b CONST1) as [E|_]; cbn [fst snd].
    { split; [apply extends_refl|]. split; [exact G|]. split; [exact Ha|].
      intro env. subst b. rewrite const1_val by exact G. rewrite andb_true_r. reflexivity. }
    destruct (edge_eqb_spec a b) as [E|_]; cbn [fst snd].
    { split; [apply extends_refl|]. split; [exact G|]. split; [exact Ha|].
      intro env. subst b. rewrite andb_diag. reflexivity. }
    destruct (edge_eqb_spec a (negate b)) as [E|_]; cbn [fst snd].
    { split; [apply extends_refl|]. split; [exact G|]. split; [exact Hc0|].
      intro env. subst a. unfold negate. rewrite negate_if_val. rewrite const0_val by exact G.
      destruct (edge_val _ b); reflexivity. }
    set (a' := if edge_gtb a b then b else a). set (b' := if edge_gtb a b then a else b).
    assert (Ha' : in_range nn a') by (unfold a'; destruct (edge_gtb a b); assumption).
    assert (Hb' : in_range nn b') by (unfold b'; destruct (edge_gtb a b); assumption).
    assert (Hv : forall vals, edge_val vals a' && edge_val vals b' = edge_val vals a && edge_val vals b).
    { intro vals. unfold a', b'. destruct (edge_gtb a b); [apply andb_comm|reflexivity]. }
    destruct (find_index (node_is_and a' b') nn 0) as [idx|] eqn:F; cbn [fst snd].
    + destruct (find_index_spec _ _ _ _ F) as [j [x [E [N Fx]]]]. cbn in E. subst idx.
      destruct x; cbn [node_is_and] in Fx; try discriminate.
      apply andb_true_iff in Fx. destruct Fx as [F0 F1]. apply edge_eqb_eq in F0. apply edge_eqb_eq in F1. subst f0 f1.
      split; [apply extends_refl|]. split; [exact G|]. split; [exact (nth_error_lt _ _ _ N)|].
      intro env. unfold edge_val at 1. cbn [fst snd]. rewrite xorb_false_r.
      rewrite (and_value env nn j a' b' (proj1 G) N). apply Hv.
    + split; [exists [NAnd a' b']; reflexivity|]. split; [apply good_snoc_and; assumption|].
      split; [unfold in_range; cbn [fst]; rewrite app_length; cbn [length]; lia|].
      intro env. unfold edge_val at 1. cbn [fst snd]. rewrite xorb_false_r.
      rewrite (and_value env (nn ++ [NAnd a' b']) (length nn) a' b').
      * rewrite !edge_val_ext by assumption. apply Hv.
      * apply good_snoc_and; assumption.
      * rewrite nth_error_app2 by lia. rewrite Nat.sub_diag. reflexivity.
Qed.

(* ---------- cuts ---------- *)
Inductive covers (nodes : list node) (leaves : list nat) : nat -> Prop :=
| cov_leaf : forall n, In n leaves -> covers nodes leaves n
| cov_and : forall n f0 f1, nth_error nodes n = Some (NAnd f0 f1) ->
    covers nodes leaves (fst f0) -> covers nodes leaves (fst f1) -> covers nodes leaves n.

Lemma covers_mono : forall nodes l1 l2 n, (forall x, In x l1 -> In x l2) ->
  covers nodes l1 n -> covers nodes l2 n.
Proof.
  intros nodes l1 l2 n H C. induction C as [n Hin|n f0 f1 Hn _ IH0 _ IH1].
  - apply cov_leaf. apply H. exact Hin.
  - eapply cov_and; eassumption.
Qed.

Definition cut_ok (nodes : list node) (root : nat) (c : cut) : Prop :=
  covers nodes (c_leaves c) root /\
  (c_leaves c = [root] \/ Forall (fun l => l < root) (c_leaves c)).

Lemma merge_leaves_in : forall fuel la lb x, In x (merge_leaves fuel la lb) -> In x la \/ In x lb.
Proof.
  induction fuel as [|f IH]; intros la lb x H; cbn [merge_leaves] in H; [contradiction|].
  destruct la as [|a ra], lb as [|b rb].
  - contradiction.
  - destruct H as [H|H]; [right; left; exact H|]. destruct (IH _ _ _ H) as [H'|H']; [contradiction|right; right; exact H'].
  - destruct H as [H|H]; [left; left; exact H|]. destruct (IH _ _ _ H) as [H'|H']; [left; right; exact H'|contradiction].
  - destruct (Nat.ltb a b); [|destruct (Nat.ltb b a)]; destruct H as [H|H].
    + left; left; exact H.
    + destruct (IH _ _ _ H) as [H'|H']; [left; right; exact H'|right; exact H'].
    + right; left; exact H.
    + destruct (IH _ _ _ H) as [H'|H']; [left; exact H'|right; right; exact H'].
    + left; left; exact H.
    + destruct (IH _ _ _ H) as [H'|H']; [left; right; exact H'|right; right; exact H'].
Qed.

Lemma merge_leaves_complete : forall fuel la lb x, length la + length lb <= fuel ->
  In x la \/ In x lb -> In x (merge_leaves fuel la lb).
Proof.
  induction fuel as [|f IH]; intros la lb x L H.
  - destruct la, lb; cbn [length] in L; try lia. destruct H as [[]|[]].
  - cbn [merge_leaves]. destruct la as [|a ra], lb as [|b rb].
    + destruct H as [[]|[]].
    + destruct H as [[]|[H|H]]; [left; exact H|right; apply IH; [cbn [length] in *; lia|right; exact H]].
    + destruct H as [[H|H]|[]]; [left; exact H|right; apply IH; [cbn [length] in *; lia|left; exact H]].
    + cbn [length] in L. destruct (Nat.ltb_spec a b) as [Hab|Hab]; [|destruct (Nat.ltb_spec b a) as [Hba|Hba]].
      * destruct H as [[H|H]|H]; [left; exact H|right; apply IH; [cbn [length]; lia|left; exact H]|
                                   right; apply IH; [cbn [length]; lia|right; exact H]].
      * destruct H as [H|[H|H]]; [right; apply IH; [cbn [length]; lia|left; exact H]|left; exact H|
                                   right; apply IH; [cbn [length]; lia|right; exact H]].
      * assert (a = b) by lia. subst b.
        destruct H as [[H|H]|[H|H]]; [left; exact H|right; apply IH; [lia|left; exact H]|left; exact H|
                                       right; apply IH; [lia|right; exact H]].
Qed.

Lemma in_insert_sorted : forall {A} cmp (x y : A) l, In y (insert_sorted cmp x l) -> y = x \/ In y l.
Proof.
  intros A cmp x y l. induction l as [|z l IH]; cbn [insert_sorted]; intro H.
  - destruct H as [H|[]]. left; symmetry; exact H.
  - destruct (cmp x z).
    + destruct H as [H|H]; [right; left; exact H|]. destruct (IH H) as [H'|H']; [left; exact H'|right; right; exact H'].
    + destruct H as [H|H]; [left; symmetry; exact H|right; exact H].
    + destruct H as [H|H]; [right; left; exact H|]. destruct (IH H) as [H'|H']; [left; exact H'|right; right; exact H'].
Qed.

Lemma in_stable_sort : forall {A} cmp (y : A) l, In y (stable_sort cmp l) -> In y l.
Proof.
  intros A cmp y l. unfold stable_sort.
  assert (G : forall acc, In y (fold_left (fun acc x => insert_sorted cmp x acc) l acc) -> In y acc \/ In y l).
  { induction l as [|x l IH]; intros acc H; cbn [fold_left] in H; [left; exact H|].
    destruct (IH _ H) as [H'|H'].
    - destruct (in_insert_sorted _ _ _ _ H') as [E|E]; [right; left; symmetry; exact E|left; exact E].
    - right; right; exact H'. }
  intro H. destruct (G [] H) as [[]|H']. exact H'.
Qed.

Lemma in_dedup_leaves : forall y l, In y (dedup_leaves l) -> In y l.
Proof.
  intros y l. induction l as [|x l IH]; cbn [dedup_leaves]; intro H; [contradiction|].
  destruct (dedup_leaves l) as [|z r].
  - destruct H as [H|[]]. left; exact H.
  - destruct (match leaves_cmp (c_leaves x) (c_leaves z) with Eq => true | _ => false end).
    + destruct H as [H|H]; [left; exact H|right; apply IH; right; exact H].
    + destruct H as [H|H]; [left; exact H|right; apply IH; exact H].
Qed.

Lemma in_firstn : forall {A} k (y : A) l, In y (firstn k l) -> In y l.
Proof.
  intros A k y l. revert k. induction l as [|x l IH]; intros k H; destruct k; cbn [firstn] in H; try contradiction.
  destruct H as [H|H]; [left; exact H|right; exact (IH _ H)].
Qed.

Lemma cut_ok_leaves_le : forall nodes root c x, cut_ok nodes root c -> In x (c_leaves c) -> x <= root.
Proof.
  intros nodes root c x [_ [E|F]] H.
  - rewrite E in H. destruct H as [H|[]]. lia.
  - rewrite Forall_forall in F. specialize (F x H). lia.
Qed.

Lemma trivial_cut_ok : forall nodes i, cut_ok nodes i (trivial_cut i).
Proof. intros nodes i. split; [apply cov_leaf; left; reflexivity|left; reflexivity]. Qed.

Lemma and_cuts_ok : forall nodes i f0 f1 ca cb,
  nth_error nodes i = Some (NAnd f0 f1) -> fst f0 < i -> fst f1 < i ->
  Forall (cut_ok nodes (fst f0)) ca -> Forall (cut_ok nodes (fst f1)) cb ->
  Forall (cut_ok nodes i) (and_cuts i ca cb).
Proof.
  intros nodes i f0 f1 ca cb Hn H0 H1 Fa Fb. apply Forall_forall. intros c Hc.
  unfold and_cuts in Hc. apply in_firstn in Hc. apply in_stable_sort in Hc.
  apply in_dedup_leaves in Hc. apply in_stable_sort in Hc. apply in_app_or in Hc.
  destruct Hc as [Hc|[Hc|[]]]; [|subst c; apply trivial_cut_ok].
  apply in_flat_map in Hc. destruct Hc as [x [Hx Hc]]. apply in_flat_map in Hc. destruct Hc as [y [Hy Hc]].
  unfold merge_cuts in Hc. cbv zeta in Hc.
  destruct (Nat.leb _ _); [|contradiction]. destruct Hc as [Hc|[]]. subst c. cbn [c_leaves].
  rewrite Forall_forall in Fa, Fb. pose proof (Fa x Hx) as Ox. pose proof (Fb y Hy) as Oy.
  split.
  - eapply cov_and; [exact Hn| |].
    + eapply covers_mono; [|exact (proj1 Ox)]. intros z Hz. apply merge_leaves_complete; [lia|left; exact Hz].
    + eapply covers_mono; [|exact (proj1 Oy)]. intros z Hz. apply merge_leaves_complete; [lia|right; exact Hz].
  - right. apply Forall_forall. intros z Hz. apply merge_leaves_in in Hz. destruct Hz as [Hz|Hz].
    + pose proof (cut_ok_leaves_le _ _ _ _ Ox Hz). lia.
    + pose proof (cut_ok_leaves_le _ _ _ _ Oy Hz). lia.
Qed.

Definition cuts_inv (nodes : list node) (cuts : list (list cut)) : Prop :=
  forall i, i < length cuts -> Forall (cut_ok nodes i) (nth i cuts []).

Lemma enumerate_cuts_inv : forall nodes, wf_nodes nodes ->
  length (enumerate_cuts nodes) = length nodes /\ cuts_inv nodes (enumerate_cuts nodes).
Proof.
  intros nodes W. unfold enumerate_cuts.
  assert (G : forall post pre cuts, nodes = pre ++ post -> length cuts = length pre -> cuts_inv nodes cuts ->
              length (fold_left cuts_step post cuts) = length nodes /\ cuts_inv nodes (fold_left cuts_step post cuts)).
  { induction post as [|nd post IH]; intros pre cuts E L I; cbn [fold_left].
    - rewrite app_nil_r in E. subst pre. split; [exact L|exact I].
    - apply (IH (pre ++ [nd])).
      + rewrite <- app_assoc. exact E.
      + unfold cuts_step. rewrite !app_length. cbn [length]. lia.
      + assert (Hn : nth_error nodes (length cuts) = Some nd).
        { rewrite E, L. rewrite nth_error_app2 by lia. rewrite Nat.sub_diag. reflexivity. }
        intros i Hi. unfold cuts_step in Hi |- *. rewrite app_length in Hi. cbn [length] in Hi.
        destruct (Nat.lt_ge_cases i (length cuts)) as [Hlt|Hge].
        * rewrite app_nth1 by exact Hlt. apply I. exact Hlt.
        * assert (i = length cuts) by lia. subst i. rewrite app_nth2 by lia. rewrite Nat.sub_diag. cbn [nth].
          destruct nd as [|o|f0 f1].
          -- constructor; [apply trivial_cut_ok|constructor].
          -- constructor; [apply trivial_cut_ok|constructor].
          -- destruct (W _ _ _ Hn) as [H0 H1].
             apply (and_cuts_ok nodes (length cuts) f0 f1); try assumption; apply I; assumption. }
  apply (G nodes [] []); [reflexivity|reflexivity|]. intros i Hi. cbn [length] in Hi. lia.
Qed.

(* ---------- eval_tt ---------- *)
Lemma index_of_spec : forall x l k i, index_of x l k = Some i ->
  exists j, i = k + j /\ nth_error l j = Some x.
Proof.
  intros x l. induction l as [|y l IH]; intros k i H; cbn [index_of] in H; [discriminate|].
  destruct (Nat.eqb_spec y x).
  - inversion H; subst. exists 0. split; [lia|reflexivity].
  - destruct (IH _ _ H) as [j [E N]]. exists (S j). split; [lia|exact N].
Qed.

Lemma index_of_none : forall x l k, index_of x l k = None -> ~ In x l.
Proof.
  intros x l. induction l as [|y l IH]; intros k H; cbn [index_of] in H; [intros []|].
  destruct (Nat.eqb_spec y x); [discriminate|]. intros [E|E]; [contradiction|exact (IH _ H E)].
Qed.

Lemma not_if_bit : forall t c m, (m < 16)%N -> N.testbit (not_if t c) m = xorb (N.testbit t m) c.
Proof.
  intros t c m Hm. unfold not_if. destruct c.
  - rewrite not16_bit. replace (m <? 16)%N with true by (symmetry; apply N.ltb_lt; exact Hm). reflexivity.
  - rewrite xorb_false_r. reflexivity.
Qed.

Lemma nth_var_tt_bit : forall i m, i < 4 -> (m < 16)%N ->
  N.testbit (nth i VAR_TT 0%N) m = N.testbit m (N.of_nat i).
Proof.
  intros i m Hi Hm. pose proof (var_tt_bits m Hm) as V.
  assert (E : nth i (map (fun v => N.testbit v m) VAR_TT) false = nth i (bits4 m) false) by (rewrite V; reflexivity).
  rewrite nth_map_bit in E. rewrite E.
  destruct i as [|[|[|[|i]]]]; try reflexivity. lia.
Qed.

Lemma eval_tt_ok : forall nodes leaves env m, wf_nodes nodes -> length leaves <= 4 -> (m < 16)%N ->
  (forall i l, nth_error leaves i = Some l -> N.testbit m (N.of_nat i) = nth l (eval_nodes env nodes) false) ->
  forall n, covers nodes leaves n -> forall fuel, n < fuel ->
  N.testbit (eval_tt fuel nodes leaves n) m = nth n (eval_nodes env nodes) false.
Proof.
  intros nodes leaves env m W L Hm HL n C.
  assert (Leaf : forall n fuel i, index_of n leaves 0 = Some i ->
            N.testbit (eval_tt fuel nodes leaves n) m = nth n (eval_nodes env nodes) false).
  { intros n0 fuel i H. destruct (index_of_spec _ _ _ _ H) as [j [E N]]. cbn in E. subst i.
    assert (Hj : j < 4) by (pose proof (nth_error_lt _ _ _ N); lia).
    destruct fuel; cbn [eval_tt]; rewrite H; rewrite nth_var_tt_bit by assumption; apply HL; exact N. }
  induction C as [n Hin|n f0 f1 Hn _ IH0 _ IH1]; intros fuel Hf.
  - destruct (index_of n leaves 0) as [i|] eqn:I; [exact (Leaf n fuel i I)|].
    exfalso. exact (index_of_none _ _ _ I Hin).
  - destruct (index_of n leaves 0) as [i|] eqn:I; [exact (Leaf n fuel i I)|].
    destruct fuel as [|f]; [lia|]. cbn [eval_tt]. rewrite I.
    rewrite (nth_error_nth nodes n NConst Hn).
    destruct (W _ _ _ Hn) as [H0 H1].
    rewrite N.land_spec. rewrite !not_if_bit by exact Hm.
    rewrite IH0 by lia. rewrite IH1 by lia.
    rewrite (and_value env nodes n f0 f1 W Hn). reflexivity.
Qed.

Lemma not_if_lt : forall t c, (t < 65536)%N -> (not_if t c < 65536)%N.
Proof. intros t c H. unfold not_if. destruct c; [apply not16_lt; exact H|exact H]. Qed.

Lemma eval_tt_lt : forall fuel nodes leaves n, (eval_tt fuel nodes leaves n < 65536)%N.
Proof.
  induction fuel as [|f IH]; intros nodes leaves n; cbn [eval_tt].
  - destruct (index_of n leaves 0); [apply nth_Forall_lt; exact var_tt_lt|reflexivity].
  - destruct (index_of n leaves 0); [apply nth_Forall_lt; exact var_tt_lt|].
    destruct (nth n nodes NConst); try reflexivity.
    apply land_lt65536. apply not_if_lt. apply IH.
Qed.

Lemma nth_map_lt : forall {A B} (f : A -> B) l i d d', i < length l -> nth i (map f l) d = f (nth i l d').
Proof.
  intros A B f l i d d' H. rewrite (nth_indep _ d (f d')) by (rewrite map_length; exact H). apply map_nth.
Qed.

(* ---------- instantiate_pattern ---------- *)
Lemma resolve_val : forall env nn node_edges pe, good nn ->
  edge_val (eval_nodes env nn) (resolve_pat_edge node_edges pe) =
  pe_valb (map (edge_val (eval_nodes env nn)) node_edges) pe.
Proof.
  intros env nn node_edges pe G. unfold resolve_pat_edge, pe_valb. rewrite negate_if_val. f_equal.
  transitivity (nth (N.to_nat (fst pe)) (map (edge_val (eval_nodes env nn)) node_edges)
                    (edge_val (eval_nodes env nn) CONST0)).
  - symmetry. apply (map_nth (edge_val (eval_nodes env nn))).
  - rewrite const0_val by exact G. reflexivity.
Qed.

Lemma resolve_range : forall nn node_edges pe, good nn -> Forall (in_range nn) node_edges ->
  in_range nn (resolve_pat_edge node_edges pe).
Proof.
  intros nn node_edges pe G F. unfold resolve_pat_edge. apply negate_if_range.
  destruct (nth_in_or_default (N.to_nat (fst pe)) node_edges CONST0) as [H|H].
  - rewrite Forall_forall in F. apply F. exact H.
  - rewrite H. apply good_nonempty. exact G.
Qed.

Lemma Forall_range_ext : forall nn nn' l, extends nn nn' -> Forall (in_range nn) l -> Forall (in_range nn') l.
Proof.
  intros nn nn' l E F. rewrite Forall_forall in *. intros e He. apply (extends_range nn nn' e E). apply F. exact He.
Qed.

Lemma map_val_ext : forall env nn nn' l, extends nn nn' -> Forall (in_range nn) l ->
  map (edge_val (eval_nodes env nn')) l = map (edge_val (eval_nodes env nn)) l.
Proof.
  intros env nn nn' l E F. apply map_ext_in. intros e He. apply extends_val; [exact E|].
  rewrite Forall_forall in F. apply F. exact He.
Qed.

Lemma inst_step_eq : forall nn ne ab,
  inst_step (nn, ne) ab =
  (fst (mk_and nn (resolve_pat_edge ne (fst ab)) (resolve_pat_edge ne (snd ab))),
   ne ++ [snd (mk_and nn (resolve_pat_edge ne (fst ab)) (resolve_pat_edge ne (snd ab)))]).
Proof. intros. unfold inst_step. destruct (mk_and _ _ _). reflexivity. Qed.

Lemma inst_fold_spec : forall ands nn0 ve nn ne,
  good nn -> extends nn0 nn -> Forall (in_range nn) ne -> Forall (in_range nn0) ve ->
  forall done,
  (forall env, map (edge_val (eval_nodes env nn)) ne = pat_valuesb done (map (edge_val (eval_nodes env nn0)) ve)) ->
  let r := fold_left inst_step ands (nn, ne) in
  good (fst r) /\ extends nn0 (fst r) /\ Forall (in_range (fst r)) (snd r) /\
  forall env, map (edge_val (eval_nodes env (fst r))) (snd r) =
              pat_valuesb (done ++ ands) (map (edge_val (eval_nodes env nn0)) ve).
Proof.
  induction ands as [|ab ands IH]; intros nn0 ve nn ne G E F Fv done H; cbn [fold_left].
  - cbn [fst snd]. rewrite app_nil_r. split; [exact G|]. split; [exact E|]. split; [exact F|exact H].
  - rewrite inst_step_eq.
    pose proof (resolve_range nn ne (fst ab) G F) as Ra. pose proof (resolve_range nn ne (snd ab) G F) as Rb.
    pose proof (mk_and_spec nn _ _ G Ra Rb) as M. cbv zeta in M.
    set (nn' := fst (mk_and nn (resolve_pat_edge ne (fst ab)) (resolve_pat_edge ne (snd ab)))) in *.
    set (e := snd (mk_and nn (resolve_pat_edge ne (fst ab)) (resolve_pat_edge ne (snd ab)))) in *.
    destruct M as [M1 [M2 [M3 M4]]].
    replace (done ++ ab :: ands) with ((done ++ [ab]) ++ ands) by (rewrite <- app_assoc; reflexivity).
    apply IH.
    + exact M2.
    + eapply extends_trans; eassumption.
    + apply Forall_app. split; [eapply Forall_range_ext; eassumption|constructor; [exact M3|constructor]].
    + exact Fv.
    + intro env. rewrite map_app. cbn [map]. rewrite (map_val_ext env nn nn' ne M1 F).
      rewrite M4. rewrite !resolve_val by exact G. rewrite H.
      unfold pat_valuesb. rewrite fold_left_app. cbn [fold_left]. reflexivity.
Qed.

Lemma instantiate_spec : forall nn p ve, good nn -> Forall (in_range nn) ve ->
  let r := instantiate_pattern nn p ve in
  good (fst r) /\ extends nn (fst r) /\ in_range (fst r) (snd r) /\
  forall env, edge_val (eval_nodes env (fst r)) (snd r) = pat_evalb p (map (edge_val (eval_nodes env nn)) ve).
Proof.
  intros nn p ve G F. unfold instantiate_pattern.
  pose proof (inst_fold_spec (p_ands p) nn ve nn ve G (extends_refl nn) F F [] (fun env => eq_refl)) as S.
  cbv zeta in S. destruct (fold_left inst_step (p_ands p) (nn, ve)) as [nn' ne]. cbn [fst snd] in *.
  destruct S as [S1 [S2 [S3 S4]]]. split; [exact S1|]. split; [exact S2|]. split; [apply resolve_range; assumption|].
  intro env. rewrite resolve_val by exact S1. rewrite S4. reflexivity.
Qed.

Opaque eval_tt.

(* ---------- one cut ---------- *)
Definition of_bits4 (b0 b1 b2 b3 : bool) : N :=
  (N.b2n b0 + 2 * N.b2n b1 + 4 * N.b2n b2 + 8 * N.b2n b3)%N.
Lemma bits4_of_bits4 : forall b0 b1 b2 b3, bits4 (of_bits4 b0 b1 b2 b3) = [b0; b1; b2; b3].
Proof. intros [] [] [] []; reflexivity. Qed.
Lemma of_bits4_lt : forall b0 b1 b2 b3, (of_bits4 b0 b1 b2 b3 < 16)%N.
Proof. intros [] [] [] []; reflexivity. Qed.
Lemma of_bits4_bit : forall b0 b1 b2 b3 i, i < 4 ->
  N.testbit (of_bits4 b0 b1 b2 b3) (N.of_nat i) = nth i [b0; b1; b2; b3] false.
Proof.
  intros b0 b1 b2 b3 i Hi. rewrite <- bits4_of_bits4. destruct i as [|[|[|[|i]]]]; try reflexivity. lia.
Qed.

(* the canonical pattern's variable i reads leaf perm[i] xor in_neg bit i: then sigma maps the
   pattern's minterm back to the leaf minterm (checked over the generated permutation table) *)
Definition inst_check : bool :=
  forallb (fun p => forallb (fun n => forallb (fun z =>
    let v := fun i => xorb (N.testbit z (nth i p 0%N)) (N.testbit n (N.of_nat i)) in
    let y := of_bits4 (v 0) (v 1) (v 2) (v 3) in
    N.eqb (pidx p (N.lxor y n)) z) seq16) seq16) ALL_PERMS.
Lemma inst_check_ok : inst_check = true.
Proof. vm_compute. reflexivity. Qed.

Lemma inst_sigma : forall t z, In t all_transforms -> (z < 16)%N ->
  let v := fun i => xorb (N.testbit z (nth i (t_perm t) 0%N)) (N.testbit (t_in_neg t) (N.of_nat i)) in
  sigma t (of_bits4 (v 0) (v 1) (v 2) (v 3)) = z.
Proof.
  intros t z Ht Hz. apply in_transforms_of in Ht. destruct Ht as [Hp Hn].
  pose proof inst_check_ok as C. unfold inst_check in C.
  rewrite forallb_forall in C. specialize (C _ Hp).
  rewrite forallb_forall in C. specialize (C _ Hn).
  rewrite forallb_forall in C. specialize (C z (proj1 (in_seq16 z) Hz)).
  cbv zeta in C. apply N.eqb_eq in C. cbv zeta. unfold sigma.
  rewrite (land15_small _ (proj2 (in_seq16 _) Hn)). exact C.
Qed.

Definition canon_ok (canon : N -> N * transform) : Prop :=
  forall tt, (tt < 65536)%N -> fst (canon tt) = apply_t (snd (canon tt)) tt /\ In (snd (canon tt)) all_transforms.
Definition lib_ok (library : lib) : Prop :=
  forall k p, lib_get k library = Some p -> pat_tt p = k.

Lemma npn_canonical_ok : canon_ok npn_canonical.
Proof.
  intros tt H. split; [symmetry; apply canonical_reaches; exact H|apply canonical_transform_in_all].
Qed.

(* invariant linking the old AIG (prefix of length = length new_edge) and the new one *)
Definition edges_ok (old nn : list node) (new_edge : list edge) : Prop :=
  Forall (in_range nn) new_edge /\
  forall env i, i < length new_edge ->
    edge_val (eval_nodes env nn) (nth i new_edge CONST0) = nth i (eval_nodes env old) false.

Lemma edges_ok_ext : forall old nn nn' ne, extends nn nn' -> edges_ok old nn ne -> edges_ok old nn' ne.
Proof.
  intros old nn nn' ne E [F V]. split; [eapply Forall_range_ext; eassumption|].
  intros env i Hi. rewrite (extends_val env nn nn' _ E); [apply V; exact Hi|].
  rewrite Forall_forall in F. apply F. apply nth_In. exact Hi.
Qed.

Definition best_ok (old nn : list node) (root : nat) (best : option (N * edge)) : Prop :=
  match best with
  | None => True
  | Some (_, e) => in_range nn e /\
      forall env, edge_val (eval_nodes env nn) e = nth root (eval_nodes env old) false
  end.

Lemma best_ok_ext : forall old nn nn' root best, extends nn nn' -> best_ok old nn root best -> best_ok old nn' root best.
Proof.
  intros old nn nn' root [[bs e]|] E H; [|exact I]. destruct H as [R V].
  split; [eapply extends_range; eassumption|]. intro env. rewrite (extends_val env nn nn' e E R). apply V.
Qed.

Section RewriteProofs.
  Variable canon : N -> N * transform.
  Variable library : lib.
  Hypothesis Hcanon : canon_ok canon.
  Hypothesis Hlib : lib_ok library.

  Lemma try_cut_spec : forall old root new_edge nn best c,
    wf_nodes old -> length new_edge = root -> good nn -> edges_ok old nn new_edge ->
    best_ok old nn root best -> cut_ok old root c ->
    let r := try_cut canon library old root new_edge (nn, best) c in
    good (fst r) /\ extends nn (fst r) /\ best_ok old (fst r) root (snd r).
  Proof.
    intros old root new_edge nn best c W L G EO BO CO.
    assert (Keep : good nn /\ extends nn nn /\ best_ok old nn root best)
      by (split; [exact G|split; [apply extends_refl|exact BO]]).
    unfold try_cut. cbv zeta.
    destruct (Nat.ltb_spec (length (c_leaves c)) 2) as [Hl2|Hl2]; [exact Keep|].
    destruct (Nat.ltb_spec 4 (length (c_leaves c))) as [Hl4|Hl4]; [exact Keep|]. cbn [orb].
    destruct (compute_cut_tt old root c) as [ttv|] eqn:CT; [|exact Keep].
    unfold compute_cut_tt in CT.
    destruct (Nat.ltb 4 (length (c_leaves c))); [discriminate|].
    destruct (is_trivial root (c_leaves c)); [discriminate|]. injection CT as Ett.
    assert (Hlt : (ttv < 65536)%N) by (rewrite <- Ett; apply eval_tt_lt).
    destruct (Hcanon ttv Hlt) as [Hc Ht]. destruct (canon ttv) as [canonical t]. cbn [fst snd] in Hc, Ht.
    destruct (lib_get canonical library) as [pat|] eqn:LG; [|exact Keep].
    destruct (N.leb (N.of_nat (c_size c)) (pat_size pat)); [exact Keep|].
    set (leaf_edges0 := map (fun l => nth l new_edge CONST0) (c_leaves c)).
    set (leaf_edges := leaf_edges0 ++ repeat (nth 0 leaf_edges0 CONST0) (4 - length (c_leaves c))).
    set (var_edges := map (fun i => negate_if (nth (N.to_nat (nth i (t_perm t) 0%N)) leaf_edges CONST0)
                                              (N.testbit (t_in_neg t) (N.of_nat i))) [0; 1; 2; 3]).
    (* leaves are earlier nodes *)
    destruct CO as [Cov Lv]. destruct Lv as [Lv|Lv]; [rewrite Lv in Hl2; cbn [length] in Hl2; lia|].
    assert (Fle0 : Forall (in_range nn) leaf_edges0).
    { apply Forall_forall. intros e He. unfold leaf_edges0 in He. apply in_map_iff in He.
      destruct He as [l [El Hin]]. subst e. destruct EO as [F _]. rewrite Forall_forall in F, Lv.
      apply F. apply nth_In. rewrite L. apply Lv. exact Hin. }
    assert (Hc0 : in_range nn CONST0) by (apply good_nonempty; exact G).
    assert (Fle : Forall (in_range nn) leaf_edges).
    { unfold leaf_edges. apply Forall_app. split; [exact Fle0|]. apply Forall_forall. intros e He.
      apply repeat_spec in He. subst e.
      destruct (nth_in_or_default 0 leaf_edges0 CONST0) as [H|H]; [|rewrite H; exact Hc0].
      rewrite Forall_forall in Fle0. apply Fle0. exact H. }
    assert (Fve : Forall (in_range nn) var_edges).
    { apply Forall_forall. intros e He. unfold var_edges in He. apply in_map_iff in He.
      destruct He as [i [Ei _]]. subst e. apply negate_if_range.
      destruct (nth_in_or_default (N.to_nat (nth i (t_perm t) 0%N)) leaf_edges CONST0) as [H|H]; [|rewrite H; exact Hc0].
      rewrite Forall_forall in Fle. apply Fle. exact H. }
    pose proof (instantiate_spec nn pat var_edges G Fve) as IS. cbv zeta in IS.
    destruct (instantiate_pattern nn pat var_edges) as [nn' oe]. cbn [fst snd] in IS.
    destruct IS as [I1 [I2 [I3 I4]]].
    assert (New : best_ok old nn' root (Some (pat_size pat, negate_if oe (t_out_neg t)))).
    { split; [apply negate_if_range; exact I3|]. intro env. rewrite negate_if_val. rewrite I4.
      set (vals := eval_nodes env nn).
      set (lv := fun k => edge_val vals (nth k leaf_edges CONST0)).
      set (z := of_bits4 (lv 0) (lv 1) (lv 2) (lv 3)).
      assert (Hz : (z < 16)%N) by apply of_bits4_lt.
      (* values of the pattern variables *)
      assert (Ev : map (edge_val vals) var_edges =
                   bits4 (of_bits4 (xorb (N.testbit z (nth 0 (t_perm t) 0%N)) (N.testbit (t_in_neg t) (N.of_nat 0)))
                                   (xorb (N.testbit z (nth 1 (t_perm t) 0%N)) (N.testbit (t_in_neg t) (N.of_nat 1)))
                                   (xorb (N.testbit z (nth 2 (t_perm t) 0%N)) (N.testbit (t_in_neg t) (N.of_nat 2)))
                                   (xorb (N.testbit z (nth 3 (t_perm t) 0%N)) (N.testbit (t_in_neg t) (N.of_nat 3))))).
      { rewrite bits4_of_bits4. unfold var_edges. cbn [map]. rewrite !negate_if_val.
        assert (Hk : forall k, edge_val vals (nth (N.to_nat k) leaf_edges CONST0) = N.testbit z k).
        { intro k. destruct (Nat.lt_ge_cases (N.to_nat k) 4) as [Hk|Hk].
          - replace k with (N.of_nat (N.to_nat k)) at 2 by apply N2Nat.id.
            unfold z. rewrite of_bits4_bit by exact Hk.
            destruct (N.to_nat k) as [|[|[|[|j]]]]; try reflexivity. lia.
          - assert (Hlen : length leaf_edges = 4).
            { unfold leaf_edges, leaf_edges0. rewrite app_length, map_length, repeat_length. lia. }
            rewrite nth_overflow by lia. unfold vals. rewrite const0_val by exact G.
            symmetry. apply (proj1 (ltpow_bits 4 z)); [exact Hz|lia]. }
        rewrite !Hk. reflexivity. }
      rewrite Ev. rewrite <- pat_tt_bit by apply of_bits4_lt.
      rewrite (Hlib _ _ LG). rewrite Hc. rewrite apply_t_bit by apply of_bits4_lt.
      rewrite (inst_sigma t z Ht Hz).
      replace (xorb (xorb (t_out_neg t) (N.testbit ttv z)) (t_out_neg t)) with (N.testbit ttv z)
        by (destruct (t_out_neg t), (N.testbit ttv z); reflexivity).
      (* the cut truth table at the leaf minterm *)
      rewrite <- Ett.
      apply (eval_tt_ok old (c_leaves c) env z W Hl4 Hz); [|exact Cov|lia].
      intros i l Hil. assert (Hi4 : i < 4) by (pose proof (nth_error_lt _ _ _ Hil); lia).
      unfold z. rewrite of_bits4_bit by exact Hi4.
      assert (Elv : nth i [lv 0; lv 1; lv 2; lv 3] false = lv i) by (destruct i as [|[|[|[|i]]]]; try reflexivity; lia).
      rewrite Elv. unfold lv, leaf_edges.
      rewrite app_nth1 by (unfold leaf_edges0; rewrite map_length; exact (nth_error_lt _ _ _ Hil)).
      unfold leaf_edges0.
      rewrite (nth_map_lt (fun l0 => nth l0 new_edge CONST0) (c_leaves c) i CONST0 0) by exact (nth_error_lt _ _ _ Hil).
      rewrite (nth_error_nth _ _ 0 Hil).
      destruct EO as [_ V]. apply V. rewrite L. rewrite Forall_forall in Lv. apply Lv.
      apply nth_error_In with i. exact Hil. }
    assert (BO' : best_ok old nn' root best) by (eapply best_ok_ext; eassumption).
    destruct best as [[bs be]|].
    - destruct (N.leb bs (pat_size pat)); cbn [fst snd]; (split; [exact I1|split; [exact I2|]]); [exact BO'|exact New].
    - cbn [fst snd]. split; [exact I1|split; [exact I2|exact New]].
  Qed.

  Lemma try_library_rewrite_spec : forall old root new_edge nn cuts,
    wf_nodes old -> length new_edge = root -> good nn -> edges_ok old nn new_edge ->
    Forall (cut_ok old root) cuts ->
    let r := try_library_rewrite canon library nn old root cuts new_edge in
    good (fst r) /\ extends nn (fst r) /\
    match snd r with
    | Some e => in_range (fst r) e /\ forall env, edge_val (eval_nodes env (fst r)) e = nth root (eval_nodes env old) false
    | None => True
    end.
  Proof.
    intros old root new_edge nn cuts W L G EO FC. unfold try_library_rewrite.
    assert (Gen : forall cs nn1 best, good nn1 -> extends nn nn1 -> best_ok old nn1 root best ->
                  Forall (cut_ok old root) cs ->
                  let r := fold_left (try_cut canon library old root new_edge) cs (nn1, best) in
                  good (fst r) /\ extends nn (fst r) /\ best_ok old (fst r) root (snd r)).
    { induction cs as [|c cs IH]; intros nn1 best G1 E1 B1 F1; cbn [fold_left].
      - cbn [fst snd]. split; [exact G1|split; [exact E1|exact B1]].
      - inversion F1 as [|c' cs' Hc Hcs]; subst.
        pose proof (try_cut_spec old (length new_edge) new_edge nn1 best c W eq_refl G1
                      (edges_ok_ext _ _ _ _ E1 EO) B1 Hc) as S. cbv zeta in S.
        destruct (try_cut canon library old (length new_edge) new_edge (nn1, best) c) as [nn2 best2].
        cbn [fst snd] in S. destruct S as [S1 [S2 S3]].
        apply IH; [exact S1|eapply extends_trans; eassumption|exact S3|exact Hcs]. }
    pose proof (Gen cuts nn None G (extends_refl nn) I FC) as S. cbv zeta in S.
    destruct (fold_left (try_cut canon library old root new_edge) cuts (nn, None)) as [nn' best].
    cbn [fst snd] in *. destruct S as [S1 [S2 S3]]. split; [exact S1|split; [exact S2|]].
    destruct best as [[bs e]|]; cbn [option_map snd]; [exact S3|exact I].
  Qed.
End RewriteProofs.

Lemma edges_ok_snoc : forall old nn ne e, edges_ok old nn ne -> in_range nn e ->
  (forall env, edge_val (eval_nodes env nn) e = nth (length ne) (eval_nodes env old) false) ->
  edges_ok old nn (ne ++ [e]).
Proof.
  intros old nn ne e [F V] R H. split.
  - apply Forall_app. split; [exact F|constructor; [exact R|constructor]].
  - intros env i Hi. rewrite app_length in Hi. cbn [length] in Hi.
    destruct (Nat.lt_ge_cases i (length ne)) as [Hlt|Hge].
    + rewrite app_nth1 by exact Hlt. apply V. exact Hlt.
    + assert (i = length ne) by lia. subst i. rewrite app_nth2 by lia. rewrite Nat.sub_diag. cbn [nth]. apply H.
Qed.

Lemma edges_ok_nth : forall old nn ne env e, edges_ok old nn ne -> fst e < length ne ->
  in_range nn (negate_if (nth (fst e) ne CONST0) (snd e)) /\
  edge_val (eval_nodes env nn) (negate_if (nth (fst e) ne CONST0) (snd e)) = edge_val (eval_nodes env old) e.
Proof.
  intros old nn ne env e [F V] H. split.
  - apply negate_if_range. rewrite Forall_forall in F. apply F. apply nth_In. exact H.
  - rewrite negate_if_val. rewrite V by exact H. reflexivity.
Qed.

Section RewriteLoop.
  Variable canon : N -> N * transform.
  Variable library : lib.
  Hypothesis Hcanon : canon_ok canon.
  Hypothesis Hlib : lib_ok library.

  Lemma rewrite_step_spec : forall old cuts nn ne nd,
    wf_nodes old -> cuts_inv old cuts -> length cuts = length old ->
    nth_error old (length ne) = Some nd ->
    good nn -> edges_ok old nn ne ->
    let r := rewrite_step canon library old cuts (nn, ne) nd in
    good (fst r) /\ edges_ok old (fst r) (snd r) /\ length (snd r) = S (length ne).
  Proof.
    intros old cuts nn ne nd W CI CL Hn G EO. unfold rewrite_step.
    destruct nd as [|o|f0 f1].
    - cbn [fst snd]. split; [exact G|]. split; [|rewrite app_length; cbn [length]; lia].
      apply edges_ok_snoc; [exact EO|apply good_nonempty; exact G|].
      intro env. rewrite const0_val by exact G. symmetry. apply const_value. exact Hn.
    - pose proof (add_input_spec nn o G) as A. cbv zeta in A. destruct (add_input nn o) as [nn' e].
      cbn [fst snd] in *. destruct A as [A1 [A2 [A3 A4]]].
      split; [exact A2|]. split; [|rewrite app_length; cbn [length]; lia].
      apply edges_ok_snoc; [eapply edges_ok_ext; eassumption|exact A3|].
      intro env. rewrite A4. symmetry. apply input_value. exact Hn.
    - assert (Hlt : length ne < length cuts) by (rewrite CL; exact (nth_error_lt _ _ _ Hn)).
      pose proof (try_library_rewrite_spec canon library Hcanon Hlib old (length ne) ne nn
                    (nth (length ne) cuts []) W eq_refl G EO (CI _ Hlt)) as T. cbv zeta in T.
      destruct (try_library_rewrite canon library nn old (length ne) (nth (length ne) cuts []) ne) as [nn' [e|]];
        cbn [fst snd] in T; destruct T as [T1 [T2 T3]].
      + cbn [fst snd]. split; [exact T1|]. split; [|rewrite app_length; cbn [length]; lia].
        destruct T3 as [T3 T4]. apply edges_ok_snoc; [eapply edges_ok_ext; eassumption|exact T3|exact T4].
      + destruct (W _ _ _ Hn) as [H0 H1].
        pose proof (edges_ok_ext _ _ _ _ T2 EO) as EO'.
        assert (R0 : in_range nn' (negate_if (nth (fst f0) ne CONST0) (snd f0)))
          by (apply (edges_ok_nth old nn' ne (fun _ => false) f0 EO' H0)).
        assert (R1 : in_range nn' (negate_if (nth (fst f1) ne CONST0) (snd f1)))
          by (apply (edges_ok_nth old nn' ne (fun _ => false) f1 EO' H1)).
        pose proof (mk_and_spec nn' _ _ T1 R0 R1) as M. cbv zeta in M.
        destruct (mk_and nn' (negate_if (nth (fst f0) ne CONST0) (snd f0))
                         (negate_if (nth (fst f1) ne CONST0) (snd f1))) as [nn'' e].
        cbn [fst snd] in *. destruct M as [M1 [M2 [M3 M4]]].
        split; [exact M2|]. split; [|rewrite app_length; cbn [length]; lia].
        apply edges_ok_snoc; [eapply edges_ok_ext; eassumption|exact M3|].
        intro env. rewrite M4.
        rewrite (proj2 (edges_ok_nth old nn' ne env f0 EO' H0)).
        rewrite (proj2 (edges_ok_nth old nn' ne env f1 EO' H1)).
        symmetry. apply and_value; assumption.
  Qed.

  Lemma rewrite_loop_spec : forall old cuts,
    wf_nodes old -> cuts_inv old cuts -> length cuts = length old ->
    forall post pre nn ne, old = pre ++ post -> length ne = length pre -> good nn -> edges_ok old nn ne ->
    let r := fold_left (rewrite_step canon library old cuts) post (nn, ne) in
    good (fst r) /\ edges_ok old (fst r) (snd r) /\ length (snd r) = length old.
  Proof.
    intros old cuts W CI CL. induction post as [|nd post IH]; intros pre nn ne E L G EO; cbn [fold_left].
    - cbn [fst snd]. rewrite app_nil_r in E. subst pre. split; [exact G|split; [exact EO|exact L]].
    - assert (Hn : nth_error old (length ne) = Some nd).
      { rewrite E, L. rewrite nth_error_app2 by lia. rewrite Nat.sub_diag. reflexivity. }
      pose proof (rewrite_step_spec old cuts nn ne nd W CI CL Hn G EO) as S. cbv zeta in S.
      destruct (rewrite_step canon library old cuts (nn, ne) nd) as [nn' ne']. cbn [fst snd] in S.
      destruct S as [S1 [S2 S3]].
      apply (IH (pre ++ [nd])); [rewrite <- app_assoc; exact E|rewrite app_length; cbn [length]; lia|exact S1|exact S2].
  Qed.

  Lemma wf_aig_spec : forall a, wf_aig a = true ->
    wf_nodes (a_nodes a) /\ Forall (fun s => fst (snd s) < length (a_nodes a)) (a_sinks a).
  Proof.
    intros a H. unfold wf_aig in H. apply andb_true_iff in H. destruct H as [H1 H2].
    split; [apply wf_nodes_of_bool; exact H1|]. apply Forall_forall. intros s Hs.
    rewrite forallb_forall in H2. specialize (H2 s Hs). apply Nat.ltb_lt in H2. exact H2.
  Qed.

  Theorem rewrite_nodes_preserves : forall a, wf_aig a = true ->
    let a' := rewrite_nodes canon library a in
    good (a_nodes a') /\ Forall (fun s => in_range (a_nodes a') (snd s)) (a_sinks a') /\
    forall env, sink_vals env a' = sink_vals env a.
  Proof.
    intros a H. destruct (wf_aig_spec a H) as [W S]. unfold rewrite_nodes. cbv zeta.
    destruct (enumerate_cuts_inv (a_nodes a) W) as [CL CI].
    pose proof (rewrite_loop_spec (a_nodes a) (enumerate_cuts (a_nodes a)) W CI CL (a_nodes a) [] new_nodes []
                  eq_refl eq_refl good_new) as R.
    assert (E0 : edges_ok (a_nodes a) new_nodes []).
    { split; [constructor|]. intros env i Hi. cbn [length] in Hi. lia. }
    specialize (R E0). cbv zeta in R.
    destruct (fold_left (rewrite_step canon library (a_nodes a) (enumerate_cuts (a_nodes a))) (a_nodes a) (new_nodes, []))
      as [nn ne]. cbn [fst snd] in R. destruct R as [R1 [R2 R3]]. cbn [a_nodes a_sinks].
    split; [exact R1|]. split.
    - apply Forall_forall. intros s Hs. apply in_map_iff in Hs. destruct Hs as [s0 [Es Hs0]]. subst s. cbn [snd].
      rewrite Forall_forall in S. specialize (S s0 Hs0).
      apply (edges_ok_nth (a_nodes a) nn ne (fun _ => false) (snd s0) R2). rewrite R3. exact S.
    - intro env. unfold sink_vals. cbn [a_nodes a_sinks]. rewrite map_map. apply map_ext_in.
      intros s Hs. cbn [fst snd]. f_equal. rewrite Forall_forall in S. specialize (S s Hs).
      apply (edges_ok_nth (a_nodes a) nn ne env (snd s) R2). rewrite R3. exact S.
  Qed.
End RewriteLoop.

(* ---------- compact ---------- *)
Definition oedges_ok (old nn : list node) (new_edge : list (option edge)) : Prop :=
  forall i e, nth_error new_edge i = Some (Some e) ->
    in_range nn e /\ forall env, edge_val (eval_nodes env nn) e = nth i (eval_nodes env old) false.

Lemma oedges_ok_ext : forall old nn nn' ne, extends nn nn' -> oedges_ok old nn ne -> oedges_ok old nn' ne.
Proof.
  intros old nn nn' ne E H i e Hi. destruct (H i e Hi) as [R V].
  split; [eapply extends_range; eassumption|]. intro env. rewrite (extends_val env nn nn' e E R). apply V.
Qed.

Lemma oedges_ok_snoc_none : forall old nn ne, oedges_ok old nn ne -> oedges_ok old nn (ne ++ [None]).
Proof.
  intros old nn ne H i e Hi. destruct (Nat.lt_ge_cases i (length ne)) as [Hlt|Hge].
  - rewrite nth_error_app1 in Hi by exact Hlt. exact (H i e Hi).
  - rewrite nth_error_app2 in Hi by exact Hge. destruct (i - length ne) as [|[|k]]; discriminate.
Qed.

Lemma oedges_ok_snoc : forall old nn ne e, oedges_ok old nn ne -> in_range nn e ->
  (forall env, edge_val (eval_nodes env nn) e = nth (length ne) (eval_nodes env old) false) ->
  oedges_ok old nn (ne ++ [Some e]).
Proof.
  intros old nn ne e H R V i e' Hi. destruct (Nat.lt_ge_cases i (length ne)) as [Hlt|Hge].
  - rewrite nth_error_app1 in Hi by exact Hlt. exact (H i e' Hi).
  - rewrite nth_error_app2 in Hi by exact Hge. destruct (i - length ne) as [|[|k]] eqn:E; try discriminate.
    cbn [nth_error] in Hi. inversion Hi; subst e'. assert (i = length ne) by lia. subst i. split; [exact R|exact V].
Qed.

Lemma opt_edge_spec : forall old nn ne e x env, oedges_ok old nn ne -> opt_edge ne e = Some x ->
  in_range nn x /\ edge_val (eval_nodes env nn) x = edge_val (eval_nodes env old) e.
Proof.
  intros old nn ne e x env H O. unfold opt_edge in O.
  destruct (nth (fst e) ne None) as [y|] eqn:N; [|discriminate]. inversion O; subst x.
  assert (Hn : nth_error ne (fst e) = Some (Some y)).
  { destruct (nth_error ne (fst e)) as [v|] eqn:NE.
    - rewrite (nth_error_nth _ _ None NE) in N. subst v. reflexivity.
    - apply nth_error_None in NE. rewrite nth_overflow in N by exact NE. discriminate. }
  destruct (H _ _ Hn) as [R V]. split; [apply negate_if_range; exact R|].
  rewrite negate_if_val. rewrite V. reflexivity.
Qed.

Lemma compact_step_spec : forall old live nn ne nd nn' ne',
  wf_nodes old -> nth_error old (length ne) = Some nd -> good nn -> oedges_ok old nn ne ->
  compact_step live (Some (nn, ne)) nd = Some (nn', ne') ->
  good nn' /\ oedges_ok old nn' ne' /\ length ne' = S (length ne).
Proof.
  intros old live nn ne nd nn' ne' W Hn G OE H. unfold compact_step in H.
  destruct (negb (mem_nat (length ne) live)).
  - inversion H; subst. split; [exact G|]. split; [apply oedges_ok_snoc_none; exact OE|rewrite app_length; cbn [length]; lia].
  - destruct nd as [|o|f0 f1].
    + inversion H; subst. split; [exact G|]. split; [|rewrite app_length; cbn [length]; lia].
      apply oedges_ok_snoc; [exact OE|apply good_nonempty; exact G|].
      intro env. rewrite const0_val by exact G. symmetry. apply const_value. exact Hn.
    + pose proof (add_input_spec nn o G) as A. cbv zeta in A. destruct (add_input nn o) as [n2 e].
      cbn [fst snd] in A. destruct A as [A1 [A2 [A3 A4]]]. inversion H; subst.
      split; [exact A2|]. split; [|rewrite app_length; cbn [length]; lia].
      apply oedges_ok_snoc; [eapply oedges_ok_ext; eassumption|exact A3|].
      intro env. rewrite A4. symmetry. apply input_value. exact Hn.
    + destruct (opt_edge ne f0) as [e0|] eqn:O0; [|discriminate].
      destruct (opt_edge ne f1) as [e1|] eqn:O1; [|discriminate].
      destruct (opt_edge_spec old nn ne f0 e0 (fun _ => false) OE O0) as [R0 _].
      destruct (opt_edge_spec old nn ne f1 e1 (fun _ => false) OE O1) as [R1 _].
      pose proof (mk_and_spec nn e0 e1 G R0 R1) as M. cbv zeta in M. destruct (mk_and nn e0 e1) as [n2 e].
      cbn [fst snd] in M. destruct M as [M1 [M2 [M3 M4]]]. inversion H; subst.
      split; [exact M2|]. split; [|rewrite app_length; cbn [length]; lia].
      apply oedges_ok_snoc; [eapply oedges_ok_ext; eassumption|exact M3|].
      intro env. rewrite M4.
      rewrite (proj2 (opt_edge_spec old nn ne f0 e0 env OE O0)).
      rewrite (proj2 (opt_edge_spec old nn ne f1 e1 env OE O1)).
      symmetry. apply and_value; assumption.
Qed.

Lemma compact_step_none : forall live nd, compact_step live None nd = None.
Proof. reflexivity. Qed.

Lemma compact_fold_none : forall live l, fold_left (compact_step live) l None = None.
Proof. intros live l. induction l as [|x l IH]; [reflexivity|exact IH]. Qed.

Lemma compact_loop_spec : forall old live, wf_nodes old ->
  forall post pre nn ne nn' ne', old = pre ++ post -> length ne = length pre -> good nn -> oedges_ok old nn ne ->
  fold_left (compact_step live) post (Some (nn, ne)) = Some (nn', ne') ->
  good nn' /\ oedges_ok old nn' ne'.
Proof.
  intros old live W. induction post as [|nd post IH]; intros pre nn ne nn' ne' E L G OE H; cbn [fold_left] in H.
  - inversion H; subst. split; assumption.
  - destruct (compact_step live (Some (nn, ne)) nd) as [[n2 e2]|] eqn:CS.
    + assert (Hn : nth_error old (length ne) = Some nd).
      { rewrite E, L. rewrite nth_error_app2 by lia. rewrite Nat.sub_diag. reflexivity. }
      destruct (compact_step_spec old live nn ne nd n2 e2 W Hn G OE CS) as [S1 [S2 S3]].
      apply (IH (pre ++ [nd]) n2 e2 nn' ne'); [rewrite <- app_assoc; exact E|rewrite app_length; cbn [length]; lia|exact S1|exact S2|exact H].
    + rewrite compact_fold_none in H. discriminate.
Qed.

Lemma map_opt_spec : forall {A B} (f : A -> option B) l r, map_opt f l = Some r ->
  length r = length l /\ forall i x, nth_error l i = Some x -> exists y, f x = Some y /\ nth_error r i = Some y.
Proof.
  intros A B f l. induction l as [|x l IH]; intros r H; cbn [map_opt] in H.
  - inversion H; subst. split; [reflexivity|]. intros i y Hi. destruct i; discriminate.
  - destruct (f x) as [y|] eqn:F; [|discriminate]. destruct (map_opt f l) as [r'|]; [|discriminate].
    inversion H; subst. destruct (IH r' eq_refl) as [L N]. split; [cbn [length]; lia|].
    intros i z Hi. destruct i as [|i]; cbn [nth_error] in *.
    + inversion Hi; subst. exists y. split; [exact F|reflexivity].
    + apply N. exact Hi.
Qed.

Theorem compact_preserves : forall a a', good (a_nodes a) -> compact a = Some a' ->
  forall env, sink_vals env a' = sink_vals env a.
Proof.
  intros a a' [W _] H env. unfold compact in H. cbv zeta in H.
  destruct (fold_left (compact_step (live_set a)) (a_nodes a) (Some (new_nodes, []))) as [[nn ne]|] eqn:F; [|discriminate].
  assert (OE0 : oedges_ok (a_nodes a) new_nodes []) by (intros i e Hi; destruct i; discriminate).
  destruct (compact_loop_spec (a_nodes a) (live_set a) W (a_nodes a) [] new_nodes [] nn ne eq_refl eq_refl good_new OE0 F)
    as [G OE].
  destruct (map_opt _ (a_sinks a)) as [sinks|] eqn:M; [|discriminate]. inversion H; subst a'. clear H.
  destruct (map_opt_spec _ _ _ M) as [L N]. unfold sink_vals. cbn [a_nodes a_sinks].
  apply nth_ext with (d := (0%N, false)) (d' := (0%N, false)); [rewrite !map_length; exact L|].
  intros i Hi. rewrite map_length in Hi.
  destruct (nth_error (a_sinks a) i) as [s|] eqn:Ns; [|apply nth_error_None in Ns; lia].
  destruct (N i s Ns) as [y [Fy Ny]].
  rewrite (nth_map_lt _ sinks i (0%N, false) (0%N, (0, false))) by exact Hi.
  rewrite (nth_map_lt _ (a_sinks a) i (0%N, false) (0%N, (0, false))) by lia.
  rewrite (nth_error_nth _ _ _ Ny). rewrite (nth_error_nth _ _ _ Ns).
  destruct (opt_edge ne (snd s)) as [x|] eqn:O; [|discriminate]. inversion Fy; subst y. cbn [fst snd].
  f_equal. apply (opt_edge_spec (a_nodes a) nn ne (snd s) x env OE O).
Qed.

(* ---------- rewrite = compact (rewrite_nodes ..) ---------- *)
Theorem rewrite_with_preserves : forall canon library a a',
  canon_ok canon -> lib_ok library -> wf_aig a = true -> rewrite_with canon library a = Some a' ->
  forall env, sink_vals env a' = sink_vals env a.
Proof.
  intros canon library a a' Hc Hl W H env. unfold rewrite_with in H.
  destruct (rewrite_nodes_preserves canon library Hc Hl a W) as [G [_ V]].
  rewrite (compact_preserves _ _ G H env). apply V.
Qed.

Theorem rewrite_preserves : forall library a a',
  lib_ok library -> wf_aig a = true -> rewrite library a = Some a' ->
  forall env, sink_vals env a' = sink_vals env a.
Proof. intros library a a' Hl W H. exact (rewrite_with_preserves npn_canonical library a a' npn_canonical_ok Hl W H). Qed.

(* the library of Gate/Npn4Model (any pattern list, any second-pass order) satisfies lib_ok *)
Lemma library_lib_ok : forall pats, lib_ok (canon_pass (by_tt_of pats)).
Proof. intros pats k p H. exact (proj1 (lookup_sound pats k p H)). Qed.


(* ---------- compact / rewrite never fail on a well-formed AIG ---------- *)
Lemma mem_nat_In : forall x l, mem_nat x l = true <-> In x l.
Proof.
  intros x l. induction l as [|y l IH]; cbn [mem_nat In]; [split; [discriminate|contradiction]|].
  rewrite orb_true_iff, Nat.eqb_eq, IH. reflexivity.
Qed.

Lemma NoDup_lt_length : forall l n, NoDup l -> (forall x, In x l -> x < n) -> length l <= n.
Proof.
  intros l n ND H. rewrite <- (seq_length n 0). apply NoDup_incl_length; [exact ND|].
  intros x Hx. apply in_seq. specialize (H x Hx). lia.
Qed.

Definition fanin_closed (nodes : list node) (live extra : list nat) : Prop :=
  forall i f0 f1, In i live -> nth_error nodes i = Some (NAnd f0 f1) ->
    (In (fst f0) live \/ In (fst f0) extra) /\ (In (fst f1) live \/ In (fst f1) extra).

Lemma live_dfs_spec : forall nodes, wf_nodes nodes ->
  forall fuel stack live,
  NoDup live -> (forall x, In x live -> x < length nodes) -> (forall x, In x stack -> x < length nodes) ->
  fanin_closed nodes live stack ->
  2 * (length nodes - length live) + length stack < fuel ->
  let L := live_dfs fuel nodes stack live in
  (forall x, In x live -> In x L) /\ (forall x, In x stack -> In x L) /\ fanin_closed nodes L [].
Proof.
  intros nodes W. induction fuel as [|fuel IH]; intros stack live ND Hl Hs FC Hf; [lia|]. cbn [live_dfs].
  destruct stack as [|idx rest].
  - split; [auto|]. split; [intros x []|]. intros i f0 f1 Hi Hn. destruct (FC i f0 f1 Hi Hn) as [[A|[]] [B|[]]]. split; left; assumption.
  - destruct (mem_nat idx live) eqn:M.
    + apply mem_nat_In in M.
      destruct (IH rest live ND Hl (fun x Hx => Hs x (or_intror Hx))) as [I1 [I2 I3]].
      * intros i f0 f1 Hi Hn. destruct (FC i f0 f1 Hi Hn) as [A B]. split.
        -- destruct A as [A|[A|A]]; [left; exact A|left; subst; exact M|right; exact A].
        -- destruct B as [B|[B|B]]; [left; exact B|left; subst; exact M|right; exact B].
      * cbn [length] in Hf. lia.
      * split; [exact I1|]. split; [|exact I3]. intros x [Hx|Hx]; [subst x; apply I1; exact M|apply I2; exact Hx].
    + assert (Hn : ~ In idx live) by (intro H; apply mem_nat_In in H; congruence).
      assert (Hidx : idx < length nodes) by (apply Hs; left; reflexivity).
      assert (ND' : NoDup (idx :: live)) by (constructor; assumption).
      assert (Hl' : forall x, In x (idx :: live) -> x < length nodes) by (intros x [Hx|Hx]; [subst; exact Hidx|apply Hl; exact Hx]).
      pose proof (NoDup_lt_length (idx :: live) (length nodes) ND' Hl') as Len. cbn [length] in Len, Hf.
      destruct (nth idx nodes NConst) as [|o|f0 f1] eqn:Nd.
      * destruct (IH rest (idx :: live) ND' Hl' (fun x Hx => Hs x (or_intror Hx))) as [I1 [I2 I3]].
        -- intros i g0 g1 [Hi|Hi] Hg.
           ++ subst i. rewrite (nth_error_nth _ _ NConst Hg) in Nd. discriminate.
           ++ destruct (FC i g0 g1 Hi Hg) as [A B]. split.
              ** destruct A as [A|[A|A]]; [left; right; exact A|left; left; exact A|right; exact A].
              ** destruct B as [B|[B|B]]; [left; right; exact B|left; left; exact B|right; exact B].
        -- cbn [length]. lia.
        -- split; [intros x Hx; apply I1; right; exact Hx|]. split; [|exact I3].
           intros x [Hx|Hx]; [subst x; apply I1; left; reflexivity|apply I2; exact Hx].
      * destruct (IH rest (idx :: live) ND' Hl' (fun x Hx => Hs x (or_intror Hx))) as [I1 [I2 I3]].
        -- intros i g0 g1 [Hi|Hi] Hg.
           ++ subst i. rewrite (nth_error_nth _ _ NConst Hg) in Nd. discriminate.
           ++ destruct (FC i g0 g1 Hi Hg) as [A B]. split.
              ** destruct A as [A|[A|A]]; [left; right; exact A|left; left; exact A|right; exact A].
              ** destruct B as [B|[B|B]]; [left; right; exact B|left; left; exact B|right; exact B].
        -- cbn [length]. lia.
        -- split; [intros x Hx; apply I1; right; exact Hx|]. split; [|exact I3].
           intros x [Hx|Hx]; [subst x; apply I1; left; reflexivity|apply I2; exact Hx].
      * assert (Hne : nth_error nodes idx = Some (NAnd f0 f1)).
        { destruct (nth_error nodes idx) as [v|] eqn:E.
          - rewrite (nth_error_nth _ _ NConst E) in Nd. subst v. reflexivity.
          - apply nth_error_None in E. lia. }
        destruct (W _ _ _ Hne) as [H0 H1].
        destruct (IH (fst f1 :: fst f0 :: rest) (idx :: live) ND' Hl') as [I1 [I2 I3]].
        -- intros x [Hx|[Hx|Hx]]; [subst x; lia|subst x; lia|apply Hs; right; exact Hx].
        -- intros i g0 g1 [Hi|Hi] Hg.
           ++ subst i. rewrite Hne in Hg. inversion Hg; subst g0 g1. split; right; [right; left|left]; reflexivity.
           ++ destruct (FC i g0 g1 Hi Hg) as [A B]. split.
              ** destruct A as [A|[A|A]]; [left; right; exact A|left; left; exact A|right; right; right; exact A].
              ** destruct B as [B|[B|B]]; [left; right; exact B|left; left; exact B|right; right; right; exact B].
        -- cbn [length]. lia.
        -- split; [intros x Hx; apply I1; right; exact Hx|]. split; [|exact I3].
           intros x [Hx|Hx]; [subst x; apply I1; left; reflexivity|apply I2; right; right; exact Hx].
Qed.

Lemma live_set_spec : forall a, wf_nodes (a_nodes a) ->
  Forall (fun s => fst (snd s) < length (a_nodes a)) (a_sinks a) ->
  (forall s, In s (a_sinks a) -> In (fst (snd s)) (live_set a)) /\ fanin_closed (a_nodes a) (live_set a) [].
Proof.
  intros a W S. unfold live_set.
  destruct (live_dfs_spec (a_nodes a) W (length (a_sinks a) + 2 * length (a_nodes a) + 1)
              (rev (map (fun s => fst (snd s)) (a_sinks a))) []) as [_ [I2 I3]].
  - constructor.
  - intros x [].
  - intros x Hx. apply in_rev in Hx. apply in_map_iff in Hx. destruct Hx as [s [E Hs]]. subst x.
    rewrite Forall_forall in S. apply S. exact Hs.
  - intros i f0 f1 [].
  - cbn [length]. rewrite rev_length, map_length. unfold edge. lia.
  - split; [|exact I3]. intros s Hs. apply I2. apply in_rev. rewrite rev_involutive. apply in_map_iff. exists s. split; [reflexivity|exact Hs].
Qed.

Lemma compact_loop_total : forall old live, wf_nodes old -> fanin_closed old live [] ->
  forall post pre nn ne, old = pre ++ post -> length ne = length pre ->
  (forall i, i < length ne -> In i live -> exists e, nth i ne None = Some e) ->
  exists nn' ne', fold_left (compact_step live) post (Some (nn, ne)) = Some (nn', ne') /\
    length ne' = length old /\ (forall i, i < length ne' -> In i live -> exists e, nth i ne' None = Some e).
Proof.
  intros old live W FC. induction post as [|nd post IH]; intros pre nn ne E L H; cbn [fold_left].
  - exists nn, ne. split; [reflexivity|]. rewrite app_nil_r in E. subst pre. split; [exact L|exact H].
  - assert (Hn : nth_error old (length ne) = Some nd).
    { rewrite E, L. rewrite nth_error_app2 by lia. rewrite Nat.sub_diag. reflexivity. }
    assert (Step : exists nn2 ne2, compact_step live (Some (nn, ne)) nd = Some (nn2, ne2) /\ length ne2 = S (length ne) /\
                   (forall i, i < length ne2 -> In i live -> exists e, nth i ne2 None = Some e)).
    { unfold compact_step. destruct (mem_nat (length ne) live) eqn:M; cbn [negb].
      - apply mem_nat_In in M.
        assert (Snoc : forall (nn2 : list node) (e : edge), exists (nn3 : list node) (ne3 : list (option edge)), Some (nn2, ne ++ [Some e]) = Some (nn3, ne3) /\ length ne3 = S (length ne) /\
                       (forall i, i < length ne3 -> In i live -> exists e', nth i ne3 None = Some e')).
        { intros nn2 e. exists nn2, (ne ++ [Some e]). split; [reflexivity|]. rewrite app_length. cbn [length]. split; [lia|].
          intros i Hi Hl. destruct (Nat.lt_ge_cases i (length ne)) as [Hlt|Hge].
          - rewrite app_nth1 by exact Hlt. apply H; assumption.
          - assert (i = length ne) by lia. subst i. rewrite app_nth2 by lia. rewrite Nat.sub_diag. exists e. reflexivity. }
        destruct nd as [|o|f0 f1].
        + apply Snoc.
        + destruct (add_input nn o) as [nn2 e]. apply Snoc.
        + destruct (W _ _ _ Hn) as [H0 H1]. destruct (FC _ _ _ M Hn) as [[A|[]] [B|[]]].
          destruct (H (fst f0) H0 A) as [e0 E0]. destruct (H (fst f1) H1 B) as [e1 E1].
          unfold opt_edge. rewrite E0, E1. destruct (mk_and nn (negate_if e0 (snd f0)) (negate_if e1 (snd f1))) as [nn2 e]. apply Snoc.
      - exists nn, (ne ++ [None]). split; [reflexivity|]. rewrite app_length. cbn [length]. split; [lia|].
        intros i Hi Hl. destruct (Nat.lt_ge_cases i (length ne)) as [Hlt|Hge].
        + rewrite app_nth1 by exact Hlt. apply H; assumption.
        + assert (i = length ne) by lia. subst i. exfalso. apply mem_nat_In in Hl. congruence. }
    destruct Step as [nn2 [ne2 [S1 [S2 S3]]]]. rewrite S1.
    apply (IH (pre ++ [nd])); [rewrite <- app_assoc; exact E|rewrite app_length; cbn [length]; lia|exact S3].
Qed.

Theorem compact_total : forall a, wf_nodes (a_nodes a) ->
  Forall (fun s => fst (snd s) < length (a_nodes a)) (a_sinks a) -> exists a', compact a = Some a'.
Proof.
  intros a W S. destruct (live_set_spec a W S) as [LS FC]. unfold compact. cbv zeta.
  destruct (compact_loop_total (a_nodes a) (live_set a) W FC (a_nodes a) [] new_nodes [] eq_refl eq_refl) as [nn [ne [F [L H]]]].
  - intros i Hi. cbn [length] in Hi. lia.
  - rewrite F.
    assert (G : forall sinks : list (N * edge), Forall (fun s => fst (snd s) < length (a_nodes a)) sinks -> (forall s, In s sinks -> In (fst (snd s)) (live_set a)) ->
                exists r, map_opt (fun s : N * edge => match opt_edge ne (snd s) with Some e => Some (fst s, e) | None => None end) sinks = Some r).
    { induction sinks as [|s sinks IH]; intros Fs Hs; [exists []; reflexivity|]. cbn [map_opt].
      inversion Fs; subst. destruct (H (fst (snd s))) as [e Ee]; [rewrite L; assumption|apply Hs; left; reflexivity|].
      unfold opt_edge at 1. rewrite Ee. destruct (IH H3 (fun s' Hs' => Hs s' (or_intror Hs'))) as [r Er]. rewrite Er.
      eexists. reflexivity. }
    destruct (G (a_sinks a) S LS) as [r Er]. rewrite Er. eexists. reflexivity.
Qed.

Theorem rewrite_with_total : forall canon library a, canon_ok canon -> lib_ok library -> wf_aig a = true ->
  exists a', rewrite_with canon library a = Some a'.
Proof.
  intros canon library a Hc Hl W. unfold rewrite_with.
  destruct (rewrite_nodes_preserves canon library Hc Hl a W) as [[Wn _] [S _]].
  apply compact_total; [exact Wn|]. exact S.
Qed.

Theorem rewrite_total : forall library a, lib_ok library -> wf_aig a = true -> exists a', rewrite library a = Some a'.
Proof. intros library a Hl W. exact (rewrite_with_total npn_canonical library a npn_canonical_ok Hl W). Qed.
