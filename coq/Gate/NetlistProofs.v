(* Gate/NetlistProofs.v — proofs about Gate/NetlistModel.v: the cycle check accepts exactly the node
   lists that have a topological order; the levelised computation returns, for every net, the maximum
   weight over all combinational paths ending there (with a witness path); wf_check is sound and
   complete for the declarative well-formedness wf; area is the element-wise sum. *)
From Coq Require Import NArith List Bool PArith FMapPositive Lia Permutation.
Import ListNotations.
From VV Require Import Gate.GeneratedCells Gate.NetlistModel.
Open Scope N_scope.

(* ---------- maps ---------- *)
Lemma key_inj : forall x y, key x = key y -> x = y.
Proof.
  intros x y H. unfold key in H. apply N.succ_inj. rewrite <- !N.succ_pos_spec. rewrite H. reflexivity.
Qed.
Lemma nfind_nadd_same : forall {A} (m : nmap A) x v, nfind (nadd x v m) x = Some v.
Proof. intros. unfold nfind, nadd. apply PositiveMap.gss. Qed.
Lemma nfind_nadd_other : forall {A} (m : nmap A) x y v, x <> y -> nfind (nadd y v m) x = nfind m x.
Proof. intros A m x y v H. unfold nfind, nadd. apply PositiveMap.gso. intro E. apply H. apply key_inj. exact E. Qed.
Lemma nfind_empty : forall {A} x, nfind (@nempty A) x = None.
Proof. intros. unfold nfind, nempty. apply PositiveMap.gempty. Qed.

Definition has {A} (m : nmap A) (x : net) : Prop := nfind m x <> None.

Lemma fold_nadd_find : forall {A} (v : A) outs m x,
  nfind (fold_left (fun m' o => nadd o v m') outs m) x = if mem_n x outs then Some v else nfind m x.
Proof.
  intros A v outs. induction outs as [|o outs IH]; intros m x; cbn [fold_left mem_n]; [reflexivity|].
  rewrite IH. destruct (N.eqb_spec o x) as [E|E]; cbn [orb].
  - subst o. destruct (mem_n x outs); [reflexivity|apply nfind_nadd_same].
  - destruct (mem_n x outs); [reflexivity|]. apply nfind_nadd_other. intro E'. apply E. symmetry. exact E'.
Qed.

Lemma mem_n_In : forall x l, mem_n x l = true <-> In x l.
Proof.
  intros x l. induction l as [|y l IH]; cbn [mem_n In]; [split; [discriminate|contradiction]|].
  rewrite orb_true_iff, N.eqb_eq, IH. reflexivity.
Qed.
Lemma mem_n_false : forall x l, mem_n x l = false <-> ~ In x l.
Proof. intros x l. rewrite <- mem_n_In. destruct (mem_n x l); split; congruence. Qed.

Definition driven (nodes : list cnode) (x : net) : Prop := exists d, In d nodes /\ In x (cn_outs d).

Lemma driven_set_spec : forall nodes x, has (driven_set nodes) x <-> driven nodes x.
Proof.
  intros nodes x. unfold driven_set.
  assert (G : forall m, has (fold_left (fun m nd => fold_left (fun m o => nadd o tt m) (cn_outs nd) m) nodes m) x
                        <-> has m x \/ driven nodes x).
  { induction nodes as [|nd nodes IH]; intro m; cbn [fold_left].
    - split; [intro H; left; exact H|intros [H|[d [[] _]]]; exact H].
    - rewrite IH. unfold has at 1. rewrite fold_nadd_find. unfold driven. split.
      + intros [H|[d [Hd Hx]]].
        * destruct (mem_n x (cn_outs nd)) eqn:M; [right; exists nd; split; [left; reflexivity|apply mem_n_In; exact M]|left; exact H].
        * right. exists d. split; [right; exact Hd|exact Hx].
      + intros [H|[d [[Hd|Hd] Hx]]].
        * left. destruct (mem_n x (cn_outs nd)); [discriminate|exact H].
        * subst d. left. apply mem_n_In in Hx. rewrite Hx. discriminate.
        * right. exists d. split; assumption. }
  rewrite G. split; [intros [H|H]; [exfalso; apply H; apply nfind_empty|exact H]|intro H; right; exact H].
Qed.

(* ---------- settle ---------- *)
Lemma settle_find : forall m nw x,
  nfind (settle m nw) x = if mem_n x (cn_outs (fst nw)) then Some (node_value m nw) else nfind m x.
Proof. intros. unfold settle. cbv zeta. apply fold_nadd_find. Qed.

Lemma in_ready_mono : forall drv m nw x, in_ready drv m x = true -> in_ready drv (settle m nw) x = true.
Proof.
  intros drv m nw x H. unfold in_ready in *. rewrite settle_find.
  destruct (mem_n x (cn_outs (fst nw))); [reflexivity|exact H].
Qed.

(* ---------- topological orders ---------- *)
Definition topo (nodes S : list cnode) : Prop :=
  forall pre nd post, S = pre ++ nd :: post ->
  forall x, In x (cn_ins nd) -> driven nodes x -> exists d, In d pre /\ In x (cn_outs d).
Definition topo_order (nodes S : list cnode) : Prop := Permutation S nodes /\ topo nodes S.
Definition acyclic (nodes : list cnode) : Prop := exists S, topo_order nodes S.

Lemma snoc_split : forall {A} (l : list A) a pre nd post, l ++ [a] = pre ++ nd :: post ->
  (post = [] /\ nd = a /\ pre = l) \/ (exists post', post = post' ++ [a] /\ l = pre ++ nd :: post').
Proof.
  intros A l a pre nd post H. destruct post as [|z post0 _] using rev_ind.
  - left. apply app_inj_tail in H. destruct H as [H1 H2]. repeat split; congruence.
  - right. replace (pre ++ nd :: post0 ++ [z]) with ((pre ++ nd :: post0) ++ [z]) in H
      by (rewrite <- app_assoc; reflexivity).
    apply app_inj_tail in H. destruct H as [H1 H2]. subst z. exists post0. split; [reflexivity|exact H1].
Qed.

(* ---------- the levelisation invariant ---------- *)
Section Levelize.
  Variable all : list (cnode * N).
  Let nodes := map fst all.
  Let drv := driven_set nodes.

  Record Inv (S : list (cnode * N)) (m : nmap N) (pending : list (cnode * N)) : Prop := {
    inv_perm : Permutation (S ++ pending) all;
    inv_dom : forall x, has m x <-> driven (map fst S) x;
    inv_topo : topo nodes (map fst S)
  }.

  Lemma ready_spec : forall m nd, node_ready drv m nd = true <->
    forall x, In x (cn_ins nd) -> has m x \/ ~ driven nodes x.
  Proof.
    intros m nd. unfold node_ready. rewrite forallb_forall. split; intros H x Hx; specialize (H x Hx).
    - unfold in_ready in H. destruct (nfind m x) eqn:F; [left; unfold has; rewrite F; discriminate|].
      right. intro D. apply driven_set_spec in D. unfold has in D. fold drv in D.
      destruct (nfind drv x); [discriminate|apply D; reflexivity].
    - unfold in_ready. destruct (nfind m x) eqn:F; [reflexivity|].
      destruct H as [H|H]; [exfalso; apply H; exact F|].
      destruct (nfind drv x) eqn:Fd; [|reflexivity]. exfalso. apply H. apply driven_set_spec.
      unfold has. fold drv. rewrite Fd. discriminate.
  Qed.

  Lemma inv_settle : forall S m nw pending1 pending2,
    Inv S m (pending1 ++ nw :: pending2) -> node_ready drv m (fst nw) = true ->
    Inv (S ++ [nw]) (settle m nw) (pending1 ++ pending2).
  Proof.
    intros S m nw p1 p2 [P D T] R. constructor.
    - rewrite <- app_assoc. cbn [app]. eapply Permutation_trans; [|exact P].
      apply Permutation_app_head. apply Permutation_middle.
    - intro x. unfold has. rewrite settle_find. rewrite map_app. cbn [map]. unfold driven. split.
      + intro H. destruct (mem_n x (cn_outs (fst nw))) eqn:M.
        * exists (fst nw). split; [apply in_or_app; right; left; reflexivity|apply mem_n_In; exact M].
        * apply D in H. destruct H as [d [Hd Hx]]. exists d. split; [apply in_or_app; left; exact Hd|exact Hx].
      + intros [d [Hd Hx]]. apply in_app_or in Hd. destruct Hd as [Hd|[Hd|[]]].
        * destruct (mem_n x (cn_outs (fst nw))); [discriminate|]. apply D. exists d. split; assumption.
        * subst d. apply mem_n_In in Hx. rewrite Hx. discriminate.
    - rewrite map_app. cbn [map]. intros pre nd post E x Hx Dx.
      destruct (snoc_split _ _ _ _ _ E) as [[E1 [E2 E3]]|[post' [E1 E2]]].
      + subst post nd pre. apply ready_spec with (x := x) in R; [|exact Hx].
        destruct R as [R|R]; [|contradiction]. apply D in R. exact R.
      + eapply T; eassumption.
  Qed.

  (* what one pass does *)
  Lemma scan_spec : forall pending S m rest prog,
    Inv S m (rev rest ++ pending) ->
    let '(m', rest', prog') := scan drv m pending rest prog in
    exists S', Inv S' m' rest' /\
      (length rest' <= length rest + length pending)%nat /\
      (prog' = true -> prog = true \/ (length rest' < length rest + length pending)%nat) /\
      (prog' = false -> prog = false /\ m' = m /\ S' = S /\ rest' = rev rest ++ pending /\
                        forall nw, In nw pending -> node_ready drv m (fst nw) = false).
  Proof.
    induction pending as [|nw pending IH]; intros S m rest prog I; cbn [scan].
    - rewrite app_nil_r in I. exists S. split; [exact I|]. rewrite rev_length. cbn [length].
      split; [lia|]. split; [intro H; left; exact H|]. intro H. repeat split; try assumption; try reflexivity.
      + rewrite app_nil_r. reflexivity.
      + intros nw [].
    - destruct (node_ready drv m (fst nw)) eqn:R.
      + pose proof (inv_settle S m nw (rev rest) pending I R) as I'.
        specialize (IH (S ++ [nw]) (settle m nw) rest true I').
        destruct (scan drv (settle m nw) pending rest true) as [[m' rest'] prog'].
        destruct IH as [S' [I2 [L [Pt Pf]]]]. exists S'. split; [exact I2|]. cbn [length]. split; [lia|]. split.
        * intro H. right. lia.
        * intro H. destruct (Pf H) as [Hc _]. discriminate.
      + assert (I' : Inv S m (rev (nw :: rest) ++ pending)).
        { cbn [rev]. rewrite <- app_assoc. exact I. }
        specialize (IH S m (nw :: rest) prog I').
        destruct (scan drv m pending (nw :: rest) prog) as [[m' rest'] prog'].
        destruct IH as [S' [I2 [L [Pt Pf]]]]. exists S'. split; [exact I2|]. cbn [length] in *. split; [lia|]. split.
        * intro H. destruct (Pt H) as [H'|H']; [left; exact H'|right; lia].
        * intro H. destruct (Pf H) as [H1 [H2 [H3 [H4 H5]]]]. split; [exact H1|]. split; [exact H2|]. split; [exact H3|].
          split; [rewrite H4; cbn [rev]; rewrite <- app_assoc; reflexivity|].
          intros nw' [E|Hin]; [subst nw'; exact R|apply H5; exact Hin].
  Qed.

  Lemma levelize_spec : forall fuel S m pending, (length pending < fuel)%nat -> Inv S m pending ->
    let '(m', rest) := levelize fuel drv m pending in
    exists S', Inv S' m' rest /\ (rest = [] \/ forall nw, In nw rest -> node_ready drv m' (fst nw) = false).
  Proof.
    induction fuel as [|fuel IH]; intros S m pending Hf I; [lia|]. cbn [levelize].
    destruct pending as [|p0 pending0] eqn:Ep.
    - exists S. split; [exact I|left; reflexivity].
    - rewrite <- Ep in *. clear Ep.
      pose proof (scan_spec pending S m [] false I) as Sc.
      destruct (scan drv m pending [] false) as [[m' rest'] prog'].
      destruct Sc as [S' [I2 [L [Pt Pf]]]]. cbn [length] in L, Pt. destruct prog'.
      + destruct (Pt eq_refl) as [H|H]; [discriminate|]. apply (IH S' m' rest'); [lia|exact I2].
      + destruct (Pf eq_refl) as [_ [H2 [H3 [H4 H5]]]]. exists S'. split; [exact I2|]. right.
        subst m'. cbn [rev app] in H4. subst rest'. exact H5.
  Qed.

  Lemma inv_init : Inv [] nempty all.
  Proof.
    constructor.
    - apply Permutation_refl.
    - intro x. split; [intro H; exfalso; apply H; apply nfind_empty|intros [d [[] _]]].
    - intros pre nd post E. destruct pre; discriminate.
  Qed.

  (* soundness and completeness of the cycle check *)
  Theorem longest_some_acyclic : forall m, longest all = Some m -> acyclic nodes.
  Proof.
    intros m H. unfold longest in H.
    pose proof (levelize_spec (S (length all)) [] nempty all (PeanoNat.Nat.lt_succ_diag_r _) inv_init) as L.
    fold nodes in H. fold drv in H.
    destruct (levelize (S (length all)) drv nempty all) as [m' rest]. destruct L as [S' [[P D T] _]].
    destruct rest; [|discriminate]. rewrite app_nil_r in P. exists (map fst S'). split; [|exact T].
    apply Permutation_map. exact P.
  Qed.

  Lemma ready_mono_has : forall m m' nd, (forall x, has m x -> has m' x) ->
    node_ready drv m nd = true -> node_ready drv m' nd = true.
  Proof.
    intros m m' nd H R. apply ready_spec. intros x Hx. apply (proj1 (ready_spec m nd) R) in Hx.
    destruct Hx as [Hx|Hx]; [left; apply H; exact Hx|right; exact Hx].
  Qed.

  Theorem acyclic_longest_some : acyclic nodes -> exists m, longest all = Some m.
  Proof.
    intros [T [PT TT]]. unfold longest.
    pose proof (levelize_spec (S (length all)) [] nempty all (PeanoNat.Nat.lt_succ_diag_r _) inv_init) as L.
    fold nodes. fold drv.
    destruct (levelize (S (length all)) drv nempty all) as [m' rest]. destruct L as [S' [[P D Tp] Fx]].
    destruct rest as [|r0 rest]; [exists m'; reflexivity|]. exfalso.
    destruct Fx as [Fx|Fx]; [discriminate|].
    (* every node of the topological order T is ready in the final map *)
    assert (AllReady : forall pre post, T = pre ++ post -> forall nd, In nd pre -> node_ready drv m' nd = true).
    { induction pre as [|a pre IH] using rev_ind; intros post E nd Hin; [contradiction|].
      apply in_app_or in Hin. destruct Hin as [Hin|[Hin|[]]].
      - apply (IH ([a] ++ post)); [rewrite E; rewrite <- app_assoc; reflexivity|exact Hin].
      - subst nd. apply ready_spec. intros x Hx.
        destruct (nfind drv x) eqn:Fd; [|right; intro Dx; apply driven_set_spec in Dx; unfold has in Dx; fold drv in Dx; rewrite Fd in Dx; apply Dx; reflexivity]. assert (Dx : driven nodes x) by (apply driven_set_spec; unfold has; fold drv; rewrite Fd; discriminate). left.
        rewrite <- app_assoc in E. cbn [app] in E.
        destruct (TT pre a post E x Hx Dx) as [d [Hd Hxd]].
        assert (Rd : node_ready drv m' d = true) by (apply (IH ([a] ++ post)); [rewrite E; reflexivity|exact Hd]).
        (* d is in all: settled or pending *)
        assert (Hdall : In d (map fst (S' ++ r0 :: rest))).
        { apply (Permutation_in d (Permutation_sym (Permutation_map fst P))).
          apply (Permutation_in d PT). rewrite E. apply in_or_app. left. exact Hd. }
        rewrite map_app in Hdall. apply in_app_or in Hdall. destruct Hdall as [Hs|Hp].
        + apply D. exists d. split; assumption.
        + apply in_map_iff in Hp. destruct Hp as [dw [Edw Hdw]]. subst d.
          rewrite (Fx dw Hdw) in Rd. discriminate. }
    assert (Hr0 : In (fst r0) T).
    { apply (Permutation_in (fst r0) (Permutation_sym PT)). unfold nodes.
      apply (Permutation_in (fst r0) (Permutation_map fst P)). rewrite map_app. apply in_or_app. right. left. reflexivity. }
    pose proof (AllReady T [] (eq_sym (app_nil_r T)) (fst r0) Hr0) as R.
    rewrite (Fx r0 (or_introl eq_refl)) in R. discriminate.
  Qed.
End Levelize.

(* ---------- max helpers ---------- *)
Lemma fold_max_ge_init : forall {A} (f : A -> N) l a, a <= fold_left (fun acc x => N.max acc (f x)) l a.
Proof.
  intros A f l. induction l as [|x l IH]; intro a; cbn [fold_left]; [apply N.le_refl|].
  eapply N.le_trans; [|apply IH]. apply N.le_max_l.
Qed.
Lemma fold_max_ge : forall {A} (f : A -> N) l a x, In x l -> f x <= fold_left (fun acc x => N.max acc (f x)) l a.
Proof.
  intros A f l. induction l as [|y l IH]; intros a x H; [contradiction|]. cbn [fold_left].
  destruct H as [H|H]; [subst y; eapply N.le_trans; [|apply fold_max_ge_init]; apply N.le_max_r|apply IH; exact H].
Qed.
Lemma fold_max_cases : forall {A} (f : A -> N) l a,
  fold_left (fun acc x => N.max acc (f x)) l a = a \/ exists x, In x l /\ fold_left (fun acc x => N.max acc (f x)) l a = f x.
Proof.
  intros A f l. induction l as [|y l IH]; intro a; cbn [fold_left]; [left; reflexivity|].
  destruct (IH (N.max a (f y))) as [H|[x [Hx H]]].
  - destruct (N.max_spec a (f y)) as [[_ E]|[_ E]]; rewrite E in *.
    + right. exists y. split; [left; reflexivity|exact H].
    + left. exact H.
  - right. exists x. split; [right; exact Hx|exact H].
Qed.

Lemma max_in_ge : forall m ins y, In y ins -> val_of m y <= max_in m ins.
Proof. intros. unfold max_in. apply (fold_max_ge (val_of m)). assumption. Qed.
Lemma max_in_cases : forall m ins, max_in m ins = 0 \/ exists y, In y ins /\ max_in m ins = val_of m y.
Proof. intros. unfold max_in. apply (fold_max_cases (val_of m)). Qed.
Lemma max_in_ext : forall m m' ins, (forall y, In y ins -> val_of m' y = val_of m y) -> max_in m' ins = max_in m ins.
Proof.
  intros m m' ins H. unfold max_in. generalize 0 as a. induction ins as [|y ins IH]; intro a; cbn [fold_left]; [reflexivity|].
  rewrite H by (left; reflexivity). apply IH. intros z Hz. apply H. right. exact Hz.
Qed.

Lemma fold_maxN_ge_init : forall l a, a <= fold_left N.max l a.
Proof. induction l as [|x l IH]; intro a; cbn [fold_left]; [apply N.le_refl|]. eapply N.le_trans; [|apply IH]. apply N.le_max_l. Qed.
Lemma maxN_ge : forall l x, In x l -> x <= maxN l.
Proof.
  intros l x H. unfold maxN. generalize 0 as a. induction l as [|y l IH]; intro a; [contradiction|]. cbn [fold_left].
  destruct H as [H|H]; [subst y; eapply N.le_trans; [|apply fold_maxN_ge_init]; apply N.le_max_r|apply IH; exact H].
Qed.
Lemma maxN_cases : forall l, maxN l = 0 \/ In (maxN l) l.
Proof.
  intro l. unfold maxN.
  assert (G : forall a, fold_left N.max l a = a \/ In (fold_left N.max l a) l).
  { induction l as [|y l IH]; intro a; cbn [fold_left]; [left; reflexivity|].
    destruct (IH (N.max a y)) as [H|H]; [|right; right; exact H].
    destruct (N.max_spec a y) as [[_ E]|[_ E]]; rewrite E in *; [right; left; symmetry; exact H|left; exact H]. }
  apply G.
Qed.

(* ---------- paths ---------- *)
Fixpoint chain (all : list (cnode * N)) (x : net) (p : list (cnode * N)) : Prop :=
  match p with
  | [] => True
  | nw :: r => In nw all /\ In x (cn_outs (fst nw)) /\ (r = [] \/ exists y, In y (cn_ins (fst nw)) /\ chain all y r)
  end.
Definition weight (p : list (cnode * N)) : N := sumN (map snd p).

Lemma NoDup_app_disj : forall {A} (l1 l2 : list A) a, NoDup (l1 ++ l2) -> In a l1 -> In a l2 -> False.
Proof.
  intros A l1 l2 a. induction l1 as [|x l1 IH]; intros H H1 H2; [contradiction|].
  cbn [app] in H. apply NoDup_cons_iff in H. destruct H as [Hn Hd]. destruct H1 as [H1|H1].
  - subst x. apply Hn. apply in_or_app. right. exact H2.
  - exact (IH Hd H1 H2).
Qed.

Lemma NoDup_app_r : forall {A} (l1 l2 : list A), NoDup (l1 ++ l2) -> NoDup l2.
Proof.
  intros A l1 l2. induction l1 as [|x l1 IH]; intro H; [exact H|]. cbn [app] in H.
  apply NoDup_cons_iff in H. apply IH. exact (proj2 H).
Qed.
Lemma NoDup_app_l : forall {A} (l1 l2 : list A), NoDup (l1 ++ l2) -> NoDup l1.
Proof.
  intros A l1 l2. induction l1 as [|x l1 IH]; intro H; [constructor|]. cbn [app] in H.
  apply NoDup_cons_iff in H. destruct H as [Hn Hd]. constructor; [|apply IH; exact Hd].
  intro Hx. apply Hn. apply in_or_app. left. exact Hx.
Qed.

Lemma NoDup_flat_disjoint : forall {A B} (f : A -> list B) l1 a l2 b x,
  NoDup (flat_map f (l1 ++ a :: l2)) -> In b l1 \/ In b l2 -> In x (f a) -> In x (f b) -> False.
Proof.
  intros A B f l1 a l2 b x H Hb Ha Hxb. rewrite flat_map_app in H. cbn [flat_map] in H.
  destruct Hb as [Hb|Hb].
  - apply (NoDup_app_disj _ _ x H); [apply in_flat_map; exists b; split; assumption|].
    apply in_or_app. left. exact Ha.
  - apply NoDup_app_r in H. apply (NoDup_app_disj _ _ x H); [exact Ha|].
    apply in_flat_map. exists b. split; assumption.
Qed.

Section Values.
  Variable all : list (cnode * N).
  Let nodes := map fst all.
  Let drv := driven_set nodes.
  Hypothesis ND : NoDup (flat_map (fun nw => cn_outs (fst nw)) all).

  (* stored values are consistent with the final map *)
  Definition vals_ok (S : list (cnode * N)) (m : nmap N) : Prop :=
    forall d x, In d S -> In x (cn_outs (fst d)) -> nfind m x = Some (node_value m d).

  Lemma ins_stable : forall S m nw pending1 pending2 d,
    Inv all S m (pending1 ++ nw :: pending2) -> (In d S \/ (d = nw /\ node_ready drv m (fst nw) = true)) ->
    forall y, In y (cn_ins (fst d)) -> val_of (settle m nw) y = val_of m y.
  Proof.
    intros S m nw p1 p2 d I Hd y Hy. unfold val_of. rewrite settle_find.
    destruct (mem_n y (cn_outs (fst nw))) eqn:M; [|reflexivity]. exfalso. apply mem_n_In in M.
    destruct I as [P D T].
    assert (NDp : NoDup (flat_map (fun nw => cn_outs (fst nw)) (S ++ p1 ++ nw :: p2))).
    { eapply Permutation_NoDup; [|exact ND]. apply Permutation_flat_map. apply Permutation_sym. exact P. }
    rewrite app_assoc in NDp.
    (* y is driven (by nw); the node d that reads y saw it settled, by an earlier node b <> nw *)
    assert (Dy : driven nodes y).
    { exists (fst nw). split; [|exact M]. unfold nodes. apply in_map.
      apply (Permutation_in nw P). apply in_or_app. right. apply in_or_app. right. left. reflexivity. }
    assert (Hb : exists b, In b S /\ In y (cn_outs (fst b))).
    { destruct Hd as [Hd|[Hd R]].
      - apply in_split in Hd. destruct Hd as [s1 [s2 Es]].
        assert (Em : map fst S = map fst s1 ++ fst d :: map fst s2) by (rewrite Es, map_app; reflexivity).
        destruct (T _ _ _ Em y Hy Dy) as [b [Hb Hyb]]. apply in_map_iff in Hb. destruct Hb as [bw [Eb Hbw]].
        exists bw. split; [rewrite Es; apply in_or_app; left; exact Hbw|rewrite Eb; exact Hyb].
      - subst d. apply (ready_spec all) with (x := y) in R; [|exact Hy]. destruct R as [R|R]; [|contradiction].
        apply D in R. destruct R as [b [Hb Hyb]]. apply in_map_iff in Hb. destruct Hb as [bw [Eb Hbw]].
        exists bw. split; [exact Hbw|rewrite Eb; exact Hyb]. }
    destruct Hb as [b [Hb Hyb]].
    apply (NoDup_flat_disjoint (fun nw => cn_outs (fst nw)) (S ++ p1) nw p2 b y NDp); [left; apply in_or_app; left; exact Hb|exact M|exact Hyb].
  Qed.

  Lemma vals_settle : forall S m nw pending1 pending2,
    Inv all S m (pending1 ++ nw :: pending2) -> node_ready drv m (fst nw) = true -> vals_ok S m ->
    vals_ok (S ++ [nw]) (settle m nw).
  Proof.
    intros S m nw p1 p2 I R V d x Hd Hx.
    assert (NV : node_value (settle m nw) d = node_value m d).
    { unfold node_value. f_equal. apply max_in_ext. intros y Hy.
      apply (ins_stable S m nw p1 p2 d I); [|exact Hy].
      apply in_app_or in Hd. destruct Hd as [Hd|[Hd|[]]]; [left; exact Hd|right; split; [symmetry; exact Hd|exact R]]. }
    rewrite NV. rewrite settle_find. apply in_app_or in Hd. destruct Hd as [Hd|[Hd|[]]].
    - destruct (mem_n x (cn_outs (fst nw))) eqn:M; [|apply V; assumption]. exfalso. apply mem_n_In in M.
      destruct I as [P D T].
      assert (NDp : NoDup (flat_map (fun nw => cn_outs (fst nw)) (S ++ p1 ++ nw :: p2))).
      { eapply Permutation_NoDup; [|exact ND]. apply Permutation_flat_map. apply Permutation_sym. exact P. }
      rewrite app_assoc in NDp.
      apply (NoDup_flat_disjoint (fun nw => cn_outs (fst nw)) (S ++ p1) nw p2 d x NDp); [left; apply in_or_app; left; exact Hd|exact M|exact Hx].
    - subst d. apply mem_n_In in Hx. rewrite Hx. reflexivity.
  Qed.

  Lemma scan_vals : forall pending S m rest prog,
    Inv all S m (rev rest ++ pending) -> vals_ok S m ->
    let '(m', rest', prog') := scan drv m pending rest prog in
    forall S', Inv all S' m' rest' -> exists S'', Inv all S'' m' rest' /\ vals_ok S'' m'.
  Proof.
    induction pending as [|nw pending IH]; intros S m rest prog I V; cbn [scan].
    - intros S' I'. exists S. split; [rewrite app_nil_r in I; exact I|exact V].
    - destruct (node_ready drv m (fst nw)) eqn:R.
      + apply (IH (S ++ [nw]) (settle m nw) rest true).
        * exact (inv_settle all S m nw (rev rest) pending I R).
        * exact (vals_settle S m nw (rev rest) pending I R V).
      + apply (IH S m (nw :: rest) prog); [cbn [rev]; rewrite <- app_assoc; exact I|exact V].
  Qed.

  Lemma levelize_vals : forall fuel S m pending, (length pending < fuel)%nat -> Inv all S m pending -> vals_ok S m ->
    let '(m', rest) := levelize fuel drv m pending in
    exists S', Inv all S' m' rest /\ vals_ok S' m'.
  Proof.
    induction fuel as [|fuel IH]; intros S m pending Hf I V; [lia|]. cbn [levelize].
    destruct pending as [|p0 pending0] eqn:Ep.
    - exists S. split; assumption.
    - rewrite <- Ep in *. clear Ep.
      pose proof (scan_spec all pending S m [] false I) as Sc.
      pose proof (scan_vals pending S m [] false I V) as Sv.
      unfold drv, nodes in *.
      destruct (scan (driven_set (map fst all)) m pending [] false) as [[m' rest'] prog'].
      destruct Sc as [S' [I2 [L [Pt Pf]]]]. destruct (Sv S' I2) as [S'' [I3 V3]]. cbn [length] in L, Pt. destruct prog'.
      + destruct (Pt eq_refl) as [H|H]; [discriminate|]. apply (IH S'' m' rest'); [lia|exact I3|exact V3].
      + exists S''. split; assumption.
  Qed.

  (* the result of `longest`: every node's outputs hold max-over-inputs + weight, in the final map *)
  Theorem longest_consistent : forall m, longest all = Some m ->
    (forall d x, In d all -> In x (cn_outs (fst d)) -> val_of m x = max_in m (cn_ins (fst d)) + snd d) /\
    (forall x, ~ driven nodes x -> val_of m x = 0) /\
    exists S, Permutation S all /\ topo nodes (map fst S).
  Proof.
    intros m H. unfold longest in H. fold nodes in H. fold drv in H.
    assert (V0 : vals_ok [] nempty) by (intros d x []).
    pose proof (levelize_vals (S (length all)) [] nempty all (PeanoNat.Nat.lt_succ_diag_r _) (inv_init all) V0) as L.
    destruct (levelize (S (length all)) drv nempty all) as [m' rest]. destruct L as [S' [[P D T] V]].
    destruct rest; [|discriminate]. inversion H; subst m'. rewrite app_nil_r in P. split; [|split].
    - intros d x Hd Hx. unfold val_of. rewrite (V d x (Permutation_in d (Permutation_sym P) Hd) Hx). reflexivity.
    - intros x Hx. unfold val_of. destruct (nfind m x) eqn:F; [|reflexivity]. exfalso. apply Hx.
      assert (Hh : has m x) by (unfold has; rewrite F; discriminate). apply D in Hh. destruct Hh as [d [Hd Hxd]].
      exists d. split; [|exact Hxd]. unfold nodes. apply (Permutation_in d (Permutation_map fst P)). exact Hd.
    - exists S'. split; [exact P|exact T].
  Qed.

  (* longest = maximum over all paths, attained *)
  Theorem longest_upper : forall m, longest all = Some m -> forall p x, chain all x p -> weight p <= val_of m x.
  Proof.
    intros m H. destruct (longest_consistent m H) as [C _].
    induction p as [|nw r IH]; intros x Hc; [apply N.le_0_l|]. cbn [chain] in Hc. destruct Hc as [Hin [Hx Hr]].
    rewrite (C nw x Hin Hx). unfold weight. cbn [map sumN fold_right]. fold (sumN (map snd r)). fold (weight r).
    destruct Hr as [Hr|[y [Hy Hc]]].
    - subst r. unfold weight. cbn. lia.
    - specialize (IH y Hc). pose proof (max_in_ge m (cn_ins (fst nw)) y Hy). lia.
  Qed.

  Theorem longest_witness : forall m, longest all = Some m -> forall x, exists p, chain all x p /\ weight p = val_of m x.
  Proof.
    intros m H x. destruct (longest_consistent m H) as [C [Z [S' [P T]]]].
    (* by induction along the settle order *)
    assert (G : forall pre post, S' = pre ++ post -> forall d x, In d pre -> In x (cn_outs (fst d)) ->
                exists p, chain all x p /\ weight p = val_of m x).
    { induction pre as [|a pre IH] using rev_ind; intros post E d x0 Hd Hx; [contradiction|].
      apply in_app_or in Hd. destruct Hd as [Hd|[Hd|[]]].
      - apply (IH ([a] ++ post)) with (d := d); [rewrite E, <- app_assoc; reflexivity|exact Hd|exact Hx].
      - subst d. assert (Hall : In a all) by (apply (Permutation_in a P); rewrite E; apply in_or_app; left; apply in_or_app; right; left; reflexivity).
        rewrite (C a x0 Hall Hx).
        assert (Base : exists p, chain all x0 p /\ weight p = 0 + snd a).
        { exists [a]. split; [cbn [chain]; split; [exact Hall|split; [exact Hx|left; reflexivity]]|unfold weight; cbn; lia]. }
        destruct (max_in_cases m (cn_ins (fst a))) as [M0|[y [Hy My]]]; [rewrite M0; exact Base|].
        rewrite My. destruct (nfind m y) eqn:F.
        + (* y is stored, hence driven, hence produced by an earlier node *)
          assert (Dy : driven nodes y).
          { destruct (N.eq_dec (val_of m y) 0) as [E0|E0]; [|].
            - (* decide by the driven set instead *) destruct (nfind drv y) eqn:Fd.
              + apply driven_set_spec. unfold has. fold nodes. fold drv. rewrite Fd. discriminate.
              + exfalso. assert (Hn : ~ driven nodes y).
                { intro Dn. apply driven_set_spec in Dn. unfold has in Dn. fold nodes in Dn. fold drv in Dn. rewrite Fd in Dn. apply Dn. reflexivity. }
                (* not driven but stored: impossible *)
                pose proof (Z y Hn) as Zy. unfold val_of in Zy. rewrite F in Zy.
                (* F says Some n with n = 0; still need contradiction with domain: use consistency instead *)
                clear Zy. destruct (longest_consistent m H) as [_ [_ _]].
                unfold longest in H. fold nodes in H. fold drv in H.
                pose proof (levelize_vals (S (length all)) [] nempty all (PeanoNat.Nat.lt_succ_diag_r _) (inv_init all) (fun d x (f : In d []) => match f with end)) as L.
                destruct (levelize (S (length all)) drv nempty all) as [m' rest]. destruct L as [S2 [[P2 D2 T2] V2]].
                destruct rest; [|discriminate]. inversion H; subst m'.
                assert (Hh : has m y) by (unfold has; rewrite F; discriminate). apply D2 in Hh. destruct Hh as [d2 [Hd2 Hy2]].
                apply Hn. exists d2. split; [|exact Hy2]. unfold nodes. rewrite app_nil_r in P2.
                apply (Permutation_in d2 (Permutation_map fst P2)). exact Hd2.
            - destruct (nfind drv y) eqn:Fd.
              + apply driven_set_spec. unfold has. fold nodes. fold drv. rewrite Fd. discriminate.
              + exfalso. apply E0. apply Z. intro Dn. apply driven_set_spec in Dn. unfold has in Dn. fold nodes in Dn. fold drv in Dn.
                rewrite Fd in Dn. apply Dn. reflexivity. }
          assert (Em : map fst S' = map fst pre ++ fst a :: map fst post) by (rewrite E, !map_app; cbn [map]; rewrite <- app_assoc; reflexivity).
          destruct (T _ _ _ Em y Hy Dy) as [b [Hb Hyb]]. apply in_map_iff in Hb. destruct Hb as [bw [Eb Hbw]].
          destruct (IH ([a] ++ post) (eq_trans E (eq_sym (app_assoc pre [a] post))) bw y Hbw) as [q [Hq Wq]]; [rewrite Eb; exact Hyb|].
          exists (a :: q). split.
          * cbn [chain]. split; [exact Hall|]. split; [exact Hx|]. right. exists y. split; assumption.
          * unfold weight in *. cbn [map sumN fold_right]. fold (sumN (map snd q)). rewrite Wq. lia.
        + unfold val_of. rewrite F. exact Base. }
    destruct (nfind drv x) eqn:Fd.
    - assert (Dx : driven nodes x) by (apply driven_set_spec; unfold has; fold nodes; fold drv; rewrite Fd; discriminate).
      destruct Dx as [d [Hd Hx]]. unfold nodes in Hd. apply in_map_iff in Hd. destruct Hd as [dw [Ed Hdw]].
      apply (G S' [] (eq_sym (app_nil_r S')) dw x); [apply (Permutation_in dw (Permutation_sym P)); exact Hdw|rewrite Ed; exact Hx].
    - exists []. split; [exact I|]. unfold weight. cbn. symmetry. apply Z.
      intro Dn. apply driven_set_spec in Dn. unfold has in Dn. fold nodes in Dn. fold drv in Dn. rewrite Fd in Dn. apply Dn. reflexivity.
  Qed.
End Values.

(* ---------- the declarative definition ---------- *)
Definition wf (nl : netlist) : Prop :=
  (forall x, In x (all_refs nl) -> x < n_nets nl) /\
  (forall c, In c (n_cells nl) -> length (c_ins c) = arity (c_kind c)) /\
  (forall x, (count_occ N.eq_dec (drives nl) x <= 1)%nat) /\
  (forall x, In x (reads nl) -> count_occ N.eq_dec (drives nl) x = 1%nat) /\
  acyclic (nodes_of nl).

Lemma nodup_n_spec : forall l, nodup_n l = true <-> NoDup l.
Proof.
  induction l as [|x l IH]; cbn [nodup_n]; [split; [constructor|reflexivity]|].
  rewrite andb_true_iff, negb_true_iff, mem_n_false, IH. rewrite NoDup_cons_iff. reflexivity.
Qed.

Lemma map_fst_nodes_w : forall fc fm nl, map fst (nodes_w fc fm nl) = nodes_of nl.
Proof.
  intros fc fm nl. unfold nodes_of, nodes_w. rewrite !map_app, !map_map. cbn [fst]. f_equal.
  induction (n_rams nl) as [|m rams IH]; [reflexivity|]. cbn [flat_map]. rewrite !map_app, IH, !map_map. reflexivity.
Qed.

Lemma acyclic_check_spec : forall nl, acyclic_check nl = true <-> acyclic (nodes_of nl).
Proof.
  intro nl. unfold acyclic_check. rewrite <- (map_fst_nodes_w (fun c => match c_kind c with Buf => 0 | _ => 1 end) (fun _ => 1) nl).
  fold (level_nodes nl). split.
  - destruct (longest (level_nodes nl)) as [m|] eqn:L; [|discriminate]. intros _. exact (longest_some_acyclic _ m L).
  - intro A. destruct (acyclic_longest_some _ A) as [m L]. rewrite L. reflexivity.
Qed.

Theorem wf_check_correct : forall nl, wf_check nl = true <-> wf nl.
Proof.
  intro nl. unfold wf_check, wf. rewrite !andb_true_iff, !forallb_forall, nodup_n_spec, acyclic_check_spec.
  split.
  - intros [[[[H1 H2] H3] H4] H5]. split; [|split; [|split; [|split]]].
    + intros x Hx. apply N.ltb_lt. apply H1. exact Hx.
    + intros c Hc. apply PeanoNat.Nat.eqb_eq. apply H2. exact Hc.
    + apply (proj1 (NoDup_count_occ N.eq_dec (drives nl))). exact H3.
    + intros x Hx. apply (proj1 (NoDup_count_occ' N.eq_dec (drives nl)) H3). apply mem_n_In. apply H4. exact Hx.
    + exact H5.
  - intros [H1 [H2 [H3 [H4 H5]]]]. split; [split; [split; [split|]|]|].
    + intros x Hx. apply N.ltb_lt. apply H1. exact Hx.
    + intros c Hc. apply PeanoNat.Nat.eqb_eq. apply H2. exact Hc.
    + apply (proj2 (NoDup_count_occ N.eq_dec (drives nl))). exact H3.
    + intros x Hx. apply mem_n_In. apply (count_occ_In N.eq_dec). rewrite (H4 x Hx). lia.
    + exact H5.
Qed.

Lemma wf_diag_zero : forall nl, wf_diag nl = 0 <-> wf_check nl = true.
Proof.
  intro nl. unfold wf_diag, wf_check.
  destruct (forallb (fun x => x <? n_nets nl) (all_refs nl)); cbn [negb andb]; [|split; discriminate].
  destruct (forallb (fun c => Nat.eqb (length (c_ins c)) (arity (c_kind c))) (n_cells nl)); cbn [negb andb]; [|split; discriminate].
  destruct (nodup_n (drives nl)); cbn [negb andb]; [|split; discriminate].
  destruct (forallb (fun x => mem_n x (drives nl)) (reads nl)); cbn [negb andb]; [|split; discriminate].
  destruct (acyclic_check nl); cbn [negb]; split; try discriminate; reflexivity.
Qed.

(* ---------- a well-formed netlist has a single driver per node output ---------- *)
Inductive sub {A} : list A -> list A -> Prop :=
| sub_nil : sub [] []
| sub_skip : forall x l1 l2, sub l1 l2 -> sub l1 (x :: l2)
| sub_keep : forall x l1 l2, sub l1 l2 -> sub (x :: l1) (x :: l2).

Lemma sub_refl : forall {A} (l : list A), sub l l.
Proof. induction l; [apply sub_nil|apply sub_keep; assumption]. Qed.
Lemma sub_in : forall {A} (l1 l2 : list A) x, sub l1 l2 -> In x l1 -> In x l2.
Proof. intros A l1 l2 x H. induction H; intro Hx; [contradiction|right; auto|destruct Hx; [left; assumption|right; auto]]. Qed.
Lemma sub_NoDup : forall {A} (l1 l2 : list A), sub l1 l2 -> NoDup l2 -> NoDup l1.
Proof.
  intros A l1 l2 H. induction H; intro N; [constructor| |].
  - apply NoDup_cons_iff in N. apply IHsub. exact (proj2 N).
  - apply NoDup_cons_iff in N. destruct N as [Nx Nl]. constructor; [|apply IHsub; exact Nl].
    intro Hx. apply Nx. eapply sub_in; eassumption.
Qed.
Lemma sub_app : forall {A} (a1 a2 b1 b2 : list A), sub a1 a2 -> sub b1 b2 -> sub (a1 ++ b1) (a2 ++ b2).
Proof. intros A a1 a2 b1 b2 H. induction H; intro Hb; cbn [app]; [exact Hb|apply sub_skip; auto|apply sub_keep; auto]. Qed.
Lemma sub_nil_l : forall {A} (l : list A), sub [] l.
Proof. induction l; [apply sub_nil|apply sub_skip; assumption]. Qed.
Lemma sub_app_r : forall {A} (l a : list A), sub l (a ++ l).
Proof. intros A l a. induction a; cbn [app]; [apply sub_refl|apply sub_skip; assumption]. Qed.
Lemma sub_flat_filter : forall {A B} (f : A -> list B) (p : A -> bool) l, sub (flat_map f (filter p l)) (flat_map f l).
Proof.
  intros A B f p l. induction l as [|x l IH]; cbn [filter flat_map]; [constructor|].
  destruct (p x); cbn [flat_map].
  - apply sub_app; [apply sub_refl|exact IH].
  - replace (flat_map f (filter p l)) with ([] ++ flat_map f (filter p l)) by reflexivity.
    apply sub_app; [apply sub_nil_l|exact IH].
Qed.

Lemma node_outs_eq : forall fc fm nl,
  flat_map (fun nw => cn_outs (fst nw)) (nodes_w fc fm nl) =
  map c_out (n_cells nl) ++ flat_map (fun m => flat_map r_data (async_reads m)) (n_rams nl).
Proof.
  intros fc fm nl. unfold nodes_w. rewrite flat_map_app. f_equal.
  - induction (n_cells nl) as [|c cs IH]; [reflexivity|]. cbn [map flat_map fst cell_node cn_outs app]. rewrite IH. reflexivity.
  - induction (n_rams nl) as [|m rams IH]; [reflexivity|]. cbn [flat_map]. rewrite flat_map_app, IH. f_equal.
    induction (async_reads m) as [|r rs IHr]; [reflexivity|]. cbn [map flat_map fst cn_outs]. rewrite IHr. reflexivity.
Qed.

Lemma wf_nodes_nodup : forall fc fm nl, NoDup (drives nl) ->
  NoDup (flat_map (fun nw => cn_outs (fst nw)) (nodes_w fc fm nl)).
Proof.
  intros fc fm nl H. rewrite node_outs_eq. eapply sub_NoDup; [|exact H]. unfold drives.
  apply (sub_app [] [0; 1]); [apply sub_nil_l|].
  apply (sub_app [] _); [apply sub_nil_l|].
  apply sub_app; [apply sub_refl|].
  apply (sub_app [] _); [apply sub_nil_l|].
  induction (n_rams nl) as [|m rams IH]; [constructor|]. cbn [flat_map]. apply sub_app; [|exact IH].
  unfold async_reads. apply sub_flat_filter.
Qed.

(* ---------- reports ---------- *)
Theorem wf_reports_defined : forall l nl, wf nl ->
  (exists m, arrivals l nl = Some m) /\ (exists m, depths nl = Some m).
Proof.
  intros l nl [_ [_ [_ [_ A]]]]. split.
  - unfold arrivals. apply acyclic_longest_some. unfold delay_nodes. rewrite map_fst_nodes_w. exact A.
  - unfold depths. apply acyclic_longest_some. unfold level_nodes. rewrite map_fst_nodes_w. exact A.
Qed.

(* critical_path_delay = the longest combinational path (sum of node delays) ending at an endpoint *)
Theorem critical_delay_is_longest_path : forall l nl D, wf nl -> critical_delay l nl = Some D ->
  (forall e p, In e (endpoints nl) -> chain (delay_nodes l nl) e p -> weight p <= D) /\
  ((endpoints nl = [] /\ D = 0) \/ exists e p, In e (endpoints nl) /\ chain (delay_nodes l nl) e p /\ weight p = D).
Proof.
  intros l nl D W H. unfold critical_delay in H. destruct (arrivals l nl) as [m|] eqn:A; [|discriminate].
  inversion H; subst D. clear H. unfold arrivals in A.
  assert (ND : NoDup (flat_map (fun nw => cn_outs (fst nw)) (delay_nodes l nl))).
  { apply wf_nodes_nodup. destruct W as [_ [_ [W3 _]]]. apply (proj2 (NoDup_count_occ N.eq_dec (drives nl))). exact W3. }
  split.
  - intros e p He Hc. eapply N.le_trans; [apply (longest_upper _ ND m A p e Hc)|]. apply maxN_ge. apply in_map. exact He.
  - destruct (endpoints nl) as [|e0 es] eqn:E; [left; split; reflexivity|]. right. rewrite <- E.
    destruct (maxN_cases (map (val_of m) (endpoints nl))) as [M0|Min].
    + rewrite M0. exists e0, []. split; [rewrite E; left; reflexivity|]. split; [exact I|reflexivity].
    + apply in_map_iff in Min. destruct Min as [e [Ev He]]. destruct (longest_witness _ ND m A e) as [p [Hc Hw]].
      exists e, p. split; [exact He|]. split; [exact Hc|]. rewrite Hw. exact Ev.
Qed.

(* the same for the depth (number of non-Buf nodes on the path) of any net *)
Theorem depth_is_longest_path : forall nl m x, wf nl -> depths nl = Some m ->
  (forall p, chain (level_nodes nl) x p -> weight p <= val_of m x) /\
  (exists p, chain (level_nodes nl) x p /\ weight p = val_of m x).
Proof.
  intros nl m x W A. unfold depths in A.
  assert (ND : NoDup (flat_map (fun nw => cn_outs (fst nw)) (level_nodes nl))).
  { apply wf_nodes_nodup. destruct W as [_ [_ [W3 _]]]. apply (proj2 (NoDup_count_occ N.eq_dec (drives nl))). exact W3. }
  split; [intros p Hc; exact (longest_upper _ ND m A p x Hc)|exact (longest_witness _ ND m A x)].
Qed.

Theorem arrival_is_longest_path : forall l nl m x, wf nl -> arrivals l nl = Some m ->
  (forall p, chain (delay_nodes l nl) x p -> weight p <= val_of m x) /\
  (exists p, chain (delay_nodes l nl) x p /\ weight p = val_of m x).
Proof.
  intros l nl m x W A. unfold arrivals in A.
  assert (ND : NoDup (flat_map (fun nw => cn_outs (fst nw)) (delay_nodes l nl))).
  { apply wf_nodes_nodup. destruct W as [_ [_ [W3 _]]]. apply (proj2 (NoDup_count_occ N.eq_dec (drives nl))). exact W3. }
  split; [intros p Hc; exact (longest_upper _ ND m A p x Hc)|exact (longest_witness _ ND m A x)].
Qed.

(* area: the sum of the library areas of cells, flip-flops and RAM bits (scaled by 10^12) *)
Theorem area_def : forall l nl,
  total_area l nl =
  sumN (map (fun c => cell_area l (c_kind c)) (n_cells nl)) * SCALE
  + N.of_nat (length (n_ffs nl)) * ff_area l * SCALE
  + sumN (map (fun m => m_depth m * m_width m) (n_rams nl)) * (ff_area l * SRAM_BIT_AREA_FACTOR).
Proof. reflexivity. Qed.

Lemma sumN_app : forall a b, sumN (a ++ b) = sumN a + sumN b.
Proof. induction a as [|x a IH]; intro b; cbn [app sumN fold_right]; [reflexivity|]. fold (sumN (a ++ b)). fold (sumN a). rewrite IH. lia. Qed.

(* area is additive in the cell / flip-flop / RAM lists (so it is a sum over the elements) *)
Theorem area_additive : forall l n p c1 c2 f1 f2 r1 r2,
  total_area l (mkNl n p (c1 ++ c2) (f1 ++ f2) (r1 ++ r2)) =
  total_area l (mkNl n p c1 f1 r1) + total_area l (mkNl n p c2 f2 r2).
Proof.
  intros. unfold total_area, comb_area, seq_area, mem_area, ram_bits. cbn [n_cells n_ffs n_rams].
  rewrite !map_app, !sumN_app, app_length, Nat2N.inj_add. lia.
Qed.
