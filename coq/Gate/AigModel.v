(* Gate/AigModel.v — Gallina transcription of crates/synthesizer/src/aig/graph.rs (AigModule,
   mk_and with structural hashing, add_input) and aig/rewrite.rs (enumerate_cuts, merge_cuts,
   compute_cut_tt / eval_tt, try_library_rewrite, instantiate_pattern, rewrite, compact), plus the
   Boolean semantics of an AIG.  Definitions only.

   Representation choices (all stated in design/C21.md):
   * node indices are `nat`; an `AigEdge(u32)` with raw value 2*node+neg is the pair (node, neg);
     raw comparison `a.0 > b.0` is the lexicographic order on (node, neg); u32 overflow of node
     indices is not modelled.
   * `hash_cons` (a HashMap filled only by mk_and) is modelled as a search for an equal And node in
     the node list; `net_edge` (filled only by add_input in a fresh module) as a search for an equal
     Input node.  Both are exact for the modules `rewrite` / `compact` build (AigModule::new() plus
     add_input / mk_and only).
   * `eval_tt`'s memo table is omitted (it only caches); recursion is on fuel = node index + 1.
   * `expect(..)` / slice indexing panics are modelled as `None` (compact, rewrite return option).
   * the NPN canonicaliser and the pattern library are parameters (`canon`, `lib`): the real ones are
     npn_canonical and the process-wide library(); the theorems need only canonical_reaches /
     membership in all_transforms for `canon` and `pat_tt p = key` for `lib`. *)
From Coq Require Import NArith List Bool Arith PeanoNat.
Import ListNotations.
From VV Require Import Gate.GeneratedNpn Gate.Npn4Model.

Definition edge := (nat * bool)%type.
Definition CONST0 : edge := (O, false).
Definition CONST1 : edge := (O, true).
Definition negate_if (e : edge) (c : bool) : edge := (fst e, xorb (snd e) c).
Definition negate (e : edge) : edge := negate_if e true.

Definition edge_eqb (a b : edge) : bool := Nat.eqb (fst a) (fst b) && Bool.eqb (snd a) (snd b).
(* raw a > raw b  where raw = 2*node + neg *)
Definition edge_gtb (a b : edge) : bool :=
  Nat.ltb (fst b) (fst a) || (Nat.eqb (fst a) (fst b) && snd a && negb (snd b)).

Inductive node :=
| NConst
| NInput (origin : N)
| NAnd (f0 f1 : edge).

Record aig := mkAig { a_nodes : list node; a_sinks : list (N * edge) }.

(* ---- semantics ------------------------------------------------------------------------------ *)
Definition edge_val (vals : list bool) (e : edge) : bool := xorb (nth (fst e) vals false) (snd e).
Definition node_val (env : N -> bool) (vals : list bool) (nd : node) : bool :=
  match nd with
  | NConst => false
  | NInput o => env o
  | NAnd f0 f1 => edge_val vals f0 && edge_val vals f1
  end.
(* value of every node, in index order (fanins of a node come before it) *)
Definition eval_nodes (env : N -> bool) (nodes : list node) : list bool :=
  fold_left (fun vals nd => vals ++ [node_val env vals nd]) nodes [].
Definition sink_vals (env : N -> bool) (a : aig) : list (N * bool) :=
  map (fun s => (fst s, edge_val (eval_nodes env (a_nodes a)) (snd s))) (a_sinks a).

(* topological order: every And refers to earlier nodes *)
Fixpoint wf_nodes_from (i : nat) (nodes : list node) : bool :=
  match nodes with
  | [] => true
  | NAnd f0 f1 :: r => Nat.ltb (fst f0) i && Nat.ltb (fst f1) i && wf_nodes_from (S i) r
  | _ :: r => wf_nodes_from (S i) r
  end.
Definition wf_aig (a : aig) : bool :=
  wf_nodes_from 0 (a_nodes a) &&
  forallb (fun s => Nat.ltb (fst (snd s)) (length (a_nodes a))) (a_sinks a).

(* ---- graph.rs ------------------------------------------------------------------------------- *)
Definition node_is_and (a b : edge) (nd : node) : bool :=
  match nd with NAnd x y => edge_eqb x a && edge_eqb y b | _ => false end.
Definition node_is_input (o : N) (nd : node) : bool :=
  match nd with NInput o' => N.eqb o' o | _ => false end.

Fixpoint find_index {A} (f : A -> bool) (l : list A) (i : nat) : option nat :=
  match l with
  | [] => None
  | x :: r => if f x then Some i else find_index f r (S i)
  end.

(* AigModule::new(): node 0 is the constant *)
Definition new_nodes : list node := [NConst].

(* AigModule::add_input *)
Definition add_input (nodes : list node) (origin : N) : list node * edge :=
  match find_index (node_is_input origin) nodes 0 with
  | Some idx => (nodes, (idx, false))
  | None => (nodes ++ [NInput origin], (length nodes, false))
  end.

(* AigModule::mk_and *)
Definition mk_and (nodes : list node) (a b : edge) : list node * edge :=
  if edge_eqb a CONST0 || edge_eqb b CONST0 then (nodes, CONST0)
  else if edge_eqb a CONST1 then (nodes, b)
  else if edge_eqb b CONST1 then (nodes, a)
  else if edge_eqb a b then (nodes, a)
  else if edge_eqb a (negate b) then (nodes, CONST0)
  else
    let a' := if edge_gtb a b then b else a in
    let b' := if edge_gtb a b then a else b in
    match find_index (node_is_and a' b') nodes 0 with
    | Some idx => (nodes, (idx, false))
    | None => (nodes ++ [NAnd a' b'], (length nodes, false))
    end.

(* ---- rewrite.rs: cuts ------------------------------------------------------------------------- *)
Record cut := mkCut { c_leaves : list nat; c_size : nat }.

(* sorted-merge union of two ascending leaf lists *)
Fixpoint merge_leaves (fuel : nat) (la lb : list nat) : list nat :=
  match fuel with
  | O => []
  | S f =>
    match la, lb with
    | [], [] => []
    | x :: ra, [] => x :: merge_leaves f ra []
    | [], y :: rb => y :: merge_leaves f [] rb
    | x :: ra, y :: rb =>
      if Nat.ltb x y then x :: merge_leaves f ra lb
      else if Nat.ltb y x then y :: merge_leaves f la rb
      else x :: merge_leaves f ra rb
    end
  end.

(* merge_cuts: None when the union exceeds MAX_CUT_LEAVES *)
Definition merge_cuts (a b : cut) : option cut :=
  let l := merge_leaves (length (c_leaves a) + length (c_leaves b)) (c_leaves a) (c_leaves b) in
  if Nat.leb (length l) (N.to_nat MAX_CUT_LEAVES)
  then Some (mkCut l (c_size a + c_size b + 1)) else None.

(* Vec<u32>::cmp *)
Fixpoint leaves_cmp (a b : list nat) : comparison :=
  match a, b with
  | [], [] => Eq
  | [], _ :: _ => Lt
  | _ :: _, [] => Gt
  | x :: ra, y :: rb => match Nat.compare x y with Eq => leaves_cmp ra rb | c => c end
  end.
Definition cmp_then (c1 c2 : comparison) : comparison := match c1 with Eq => c2 | _ => c1 end.
Definition cut_cmp_leaves_size (a b : cut) : comparison :=
  cmp_then (leaves_cmp (c_leaves a) (c_leaves b)) (Nat.compare (c_size a) (c_size b)).
Definition cut_cmp_len_size (a b : cut) : comparison :=
  cmp_then (Nat.compare (length (c_leaves a)) (length (c_leaves b))) (Nat.compare (c_size a) (c_size b)).

(* stable sort (slice::sort_by is stable): insertion after every element that is not greater *)
Fixpoint insert_sorted {A} (cmp : A -> A -> comparison) (x : A) (l : list A) : list A :=
  match l with
  | [] => [x]
  | y :: r => match cmp x y with Lt => x :: y :: r | _ => y :: insert_sorted cmp x r end
  end.
Definition stable_sort {A} (cmp : A -> A -> comparison) (l : list A) : list A :=
  fold_left (fun acc x => insert_sorted cmp x acc) l [].

(* Vec::dedup_by(|a, b| a.leaves == b.leaves): drop an element equal (by leaves) to the one kept before it *)
Fixpoint dedup_leaves (l : list cut) : list cut :=
  match l with
  | [] => []
  | x :: r =>
    match dedup_leaves r with
    | [] => [x]
    | y :: r' => if match leaves_cmp (c_leaves x) (c_leaves y) with Eq => true | _ => false end
                 then x :: r' else x :: y :: r'
    end
  end.

Definition trivial_cut (i : nat) : cut := mkCut [i] 0.

Definition and_cuts (i : nat) (ca cb : list cut) : list cut :=
  let own := flat_map (fun x => flat_map (fun y => match merge_cuts x y with Some m => [m] | None => [] end) cb) ca
             ++ [trivial_cut i] in
  let own := dedup_leaves (stable_sort cut_cmp_leaves_size own) in
  firstn (N.to_nat CUTS_PER_NODE) (stable_sort cut_cmp_len_size own).

(* enumerate_cuts: cuts of node i from the cuts of earlier nodes *)
Definition cuts_step (cuts : list (list cut)) (nd : node) : list (list cut) :=
  let i := length cuts in
  cuts ++ [match nd with
           | NAnd f0 f1 => and_cuts i (nth (fst f0) cuts []) (nth (fst f1) cuts [])
           | _ => [trivial_cut i]
           end].
Definition enumerate_cuts (nodes : list node) : list (list cut) := fold_left cuts_step nodes [].

(* ---- rewrite.rs: cut truth table ------------------------------------------------------------- *)
Fixpoint index_of (x : nat) (l : list nat) (i : nat) : option nat :=
  match l with
  | [] => None
  | y :: r => if Nat.eqb y x then Some i else index_of x r (S i)
  end.

Definition not_if (t : N) (c : bool) : N := if c then not16 t else t.

(* eval_tt (memo omitted); fuel > node index *)
Fixpoint eval_tt (fuel : nat) (nodes : list node) (leaves : list nat) (n : nat) : N :=
  match index_of n leaves 0 with
  | Some i => nth i VAR_TT 0%N
  | None =>
    match fuel with
    | O => 0%N
    | S f =>
      match nth n nodes NConst with
      | NConst => 0%N
      | NInput _ => 0%N
      | NAnd f0 f1 =>
        N.land (not_if (eval_tt f nodes leaves (fst f0)) (snd f0))
               (not_if (eval_tt f nodes leaves (fst f1)) (snd f1))
      end
    end
  end.

Definition is_trivial (root : nat) (leaves : list nat) : bool :=
  match leaves with [x] => Nat.eqb x root | _ => false end.

Definition compute_cut_tt (nodes : list node) (root : nat) (c : cut) : option N :=
  if Nat.ltb 4 (length (c_leaves c)) then None
  else if is_trivial root (c_leaves c) then None
  else Some (eval_tt (S root) nodes (c_leaves c) root).

(* ---- rewrite.rs: pattern instantiation ------------------------------------------------------- *)
Definition resolve_pat_edge (node_edges : list edge) (pe : pedge) : edge :=
  negate_if (nth (N.to_nat (fst pe)) node_edges CONST0) (snd pe).

Definition inst_step (st : list node * list edge) (ab : pedge * pedge) : list node * list edge :=
  let (nodes, node_edges) := st in
  let ea := resolve_pat_edge node_edges (fst ab) in
  let eb := resolve_pat_edge node_edges (snd ab) in
  let (nodes', e) := mk_and nodes ea eb in
  (nodes', node_edges ++ [e]).

Definition instantiate_pattern (nodes : list node) (p : pattern) (var_edges : list edge) : list node * edge :=
  let (nodes', node_edges) := fold_left inst_step (p_ands p) (nodes, var_edges) in
  (nodes', resolve_pat_edge node_edges (p_out p)).

(* ---- rewrite.rs: try_library_rewrite --------------------------------------------------------- *)
Section Rewrite.
  Variable canon : N -> N * transform.
  Variable library : lib.

  Definition try_cut (old : list node) (root : nat) (new_edge : list edge)
             (st : list node * option (N * edge)) (c : cut) : list node * option (N * edge) :=
    let (nodes, best) := st in
    let nl := length (c_leaves c) in
    if Nat.ltb nl 2 || Nat.ltb 4 nl then st else
    match compute_cut_tt old root c with
    | None => st
    | Some ttv =>
      let (canonical, t) := canon ttv in
      match lib_get canonical library with
      | None => st
      | Some pat =>
        let psz := pat_size pat in
        if N.leb (N.of_nat (c_size c)) psz then st else
        let leaf_edges0 := map (fun l => nth l new_edge CONST0) (c_leaves c) in
        let leaf_edges := leaf_edges0 ++ repeat (nth 0 leaf_edges0 CONST0) (4 - nl) in
        let var_edges := map (fun i => negate_if (nth (N.to_nat (nth i (t_perm t) 0%N)) leaf_edges CONST0)
                                                 (N.testbit (t_in_neg t) (N.of_nat i))) [0; 1; 2; 3]%nat in
        let (nodes', oe) := instantiate_pattern nodes pat var_edges in
        let out_edge := negate_if oe (t_out_neg t) in
        match best with
        | Some (bs, _) => if N.leb bs psz then (nodes', best) else (nodes', Some (psz, out_edge))
        | None => (nodes', Some (psz, out_edge))
        end
      end
    end.

  Definition try_library_rewrite (nodes old : list node) (root : nat) (cuts : list cut) (new_edge : list edge)
    : list node * option edge :=
    let (nodes', best) := fold_left (try_cut old root new_edge) cuts (nodes, None) in
    (nodes', option_map snd best).

  (* body of the main loop of rewrite(): new_edge holds the edges of the nodes already visited *)
  Definition rewrite_step (old : list node) (cuts : list (list cut))
             (st : list node * list edge) (nd : node) : list node * list edge :=
    let (nodes, new_edge) := st in
    let idx := length new_edge in
    match nd with
    | NConst => (nodes, new_edge ++ [CONST0])
    | NInput o => let (nodes', e) := add_input nodes o in (nodes', new_edge ++ [e])
    | NAnd f0 f1 =>
      match try_library_rewrite nodes old idx (nth idx cuts []) new_edge with
      | (nodes', Some e) => (nodes', new_edge ++ [e])
      | (nodes', None) =>
        let e0 := negate_if (nth (fst f0) new_edge CONST0) (snd f0) in
        let e1 := negate_if (nth (fst f1) new_edge CONST0) (snd f1) in
        let (nodes'', e) := mk_and nodes' e0 e1 in
        (nodes'', new_edge ++ [e])
      end
    end.

  Definition rewrite_nodes (a : aig) : aig :=
    let cuts := enumerate_cuts (a_nodes a) in
    let (nodes, new_edge) := fold_left (rewrite_step (a_nodes a) cuts) (a_nodes a) (new_nodes, []) in
    mkAig nodes (map (fun s => (fst s, negate_if (nth (fst (snd s)) new_edge CONST0) (snd (snd s)))) (a_sinks a)).
End Rewrite.

(* ---- rewrite.rs: compact ------------------------------------------------------------------------ *)
Fixpoint mem_nat (x : nat) (l : list nat) : bool :=
  match l with [] => false | y :: r => Nat.eqb y x || mem_nat x r end.

(* the DFS `while let Some(idx) = stack.pop()`; fuel bounds the number of pops *)
Fixpoint live_dfs (fuel : nat) (nodes : list node) (stack : list nat) (live : list nat) : list nat :=
  match fuel with
  | O => live
  | S f =>
    match stack with
    | [] => live
    | idx :: rest =>
      if mem_nat idx live then live_dfs f nodes rest live
      else match nth idx nodes NConst with
           | NAnd f0 f1 => live_dfs f nodes (fst f1 :: fst f0 :: rest) (idx :: live)
           | _ => live_dfs f nodes rest (idx :: live)
           end
    end
  end.

Definition live_set (a : aig) : list nat :=
  (* Vec::pop takes from the end: the initial stack is the reversed sink list *)
  live_dfs (length (a_sinks a) + 2 * length (a_nodes a) + 1) (a_nodes a)
           (rev (map (fun s => fst (snd s)) (a_sinks a))) [].

Definition opt_edge (new_edge : list (option edge)) (e : edge) : option edge :=
  match nth (fst e) new_edge None with
  | Some x => Some (negate_if x (snd e))
  | None => None
  end.

Definition compact_step (live : list nat)
           (st : option (list node * list (option edge))) (nd : node) : option (list node * list (option edge)) :=
  match st with
  | None => None
  | Some (nodes, new_edge) =>
    let idx := length new_edge in
    if negb (mem_nat idx live) then Some (nodes, new_edge ++ [None]) else
    match nd with
    | NConst => Some (nodes, new_edge ++ [Some CONST0])
    | NInput o => let (nodes', e) := add_input nodes o in Some (nodes', new_edge ++ [Some e])
    | NAnd f0 f1 =>
      match opt_edge new_edge f0, opt_edge new_edge f1 with
      | Some e0, Some e1 => let (nodes', e) := mk_and nodes e0 e1 in Some (nodes', new_edge ++ [Some e])
      | _, _ => None      (* expect("fanin live before AND in topo order") *)
      end
    end
  end.

Fixpoint map_opt {A B} (f : A -> option B) (l : list A) : option (list B) :=
  match l with
  | [] => Some []
  | x :: r => match f x, map_opt f r with Some y, Some r' => Some (y :: r') | _, _ => None end
  end.

Definition compact (a : aig) : option aig :=
  let live := live_set a in
  match fold_left (compact_step live) (a_nodes a) (Some (new_nodes, [])) with
  | None => None
  | Some (nodes, new_edge) =>
    match map_opt (fun s => match opt_edge new_edge (snd s) with
                            | Some e => Some (fst s, e) | None => None end) (a_sinks a) with
    | Some sinks => Some (mkAig nodes sinks)
    | None => None        (* expect("sink node live") *)
    end
  end.

(* pub fn rewrite *)
Definition rewrite_with (canon : N -> N * transform) (library : lib) (a : aig) : option aig :=
  compact (rewrite_nodes canon library a).
Definition rewrite (library : lib) (a : aig) : option aig := rewrite_with npn_canonical library a.
